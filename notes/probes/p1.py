import os
from typing import List, Dict
from signac.import_export import _check_directory_structure_validity
from signac.filterparse import _cast, _parse_single, _is_json_like, _root_keys, _add_prefix
from signac.project import JOB_ID_REGEX

def leaf_node(paths: List[str]) -> bool:
    """
    pre: len(paths) == 2
    pre: all(0 < len(p) <= 3 for p in paths)
    post: True
    """
    # reference: conflict iff some path is a proper ancestor of (or equal to) another
    def anc(a, b):
        return b.startswith(a + os.sep)
    expect = any(anc(a, b) for i, a in enumerate(paths) for j, b in enumerate(paths) if i != j)
    try:
        _check_directory_structure_validity(paths)
        raised = False
    except RuntimeError:
        raised = True
    assert raised == expect
    return True

def idmatch(d: str) -> bool:
    """
    pre: len(d) <= 34
    post: _ == (len(d) == 32 and all(c in '0123456789abcdef' for c in d))
    """
    return bool(JOB_ID_REGEX.match(d))

def jsonlike(q: str) -> bool:
    """
    pre: len(q) <= 3
    post: True
    """
    return _is_json_like(q)
