import threading, json, types
import memfs
from p5 import install, mkproject, check_ws
import signac.project as P

class Actor:
    def __init__(self, fs, fn):
        self.go = threading.Semaphore(0); self.back = threading.Semaphore(0)
        self.done = False; self.exc = None; self.fn = fn
        self.t = threading.Thread(target=self.run, daemon=True)
    def run(self):
        self.go.acquire()
        try:
            self.fn()
        except BaseException as e:
            self.exc = e
        self.done = True
        self.back.release()
    def step(self):
        self.go.release(); self.back.acquire()

class SchedFS(memfs.MemFS):
    actors = None
    def tick(self, name, *a):
        self.log.append((threading.current_thread().name, name) + a)
        me = getattr(threading.current_thread(), 'actor', None)
        if me is not None:
            me.back.release(); me.go.acquire()

def two_init(s0: int, s1: int, s2: int, s3: int, s4: int, s5: int, s6: int, s7: int, s8:int, s9:int, s10:int, s11:int) -> bool:
    """
    pre: all(0 <= s <= 1 for s in (s0,s1,s2,s3,s4,s5,s6,s7,s8,s9,s10,s11))
    post: True
    """
    fs = SchedFS(); install(fs)
    pr = mkproject(fs)
    acts = []
    for i in range(2):
        def body():
            P.Project.open_job(pr, {'a': 1}).init()
        a = Actor(fs, body); a.t.actor = a; acts.append(a); a.t.start()
    sched = [s0,s1,s2,s3,s4,s5,s6,s7,s8,s9,s10,s11]
    for s in sched:
        live = [a for a in acts if not a.done]
        if not live: break
        if len(live) == 1:
            live[0].step(); continue
        if s == 0: acts[0].step()
        else: acts[1].step()
    while any(not a.done for a in acts):
        for a in acts:
            if not a.done: a.step()
    for a in acts:
        assert a.exc is None, repr(a.exc)
    ok = check_ws(fs, [{'a': 1}])
    assert len(ok) == 1
    return True
