import threading, json, types, posixpath
import memfs
from p5 import install, mkproject, check_ws
import signac.project as P
from crosshair.tracers import NoTracing
from crosshair.util import IgnoreAttempt

READS = {'open_r', 'listdir', 'isfile', 'isdir', 'exists'}

class Actor:
    def __init__(self, fn, idx):
        self.go = threading.Semaphore(0); self.back = threading.Semaphore(0)
        self.done = False; self.exc = None; self.fn = fn; self.pending = None; self.idx = idx
        self.t = threading.Thread(target=self.run, daemon=True); self.t.actor = self
    def run(self):
        self.go.acquire()
        try: self.fn()
        except BaseException as e: self.exc = e
        self.done = True; self.pending = None
        self.back.release()
    def start(self):
        self.t.start(); self.go.release(); self.back.acquire()   # run to first tick
    def step(self):
        self.go.release(); self.back.acquire()

class SchedFS(memfs.MemFS):
    def tick(self, name, *a):
        me = getattr(threading.current_thread(), 'actor', None)
        if me is not None:
            me.pending = (name, a)
            me.back.release(); me.go.acquire()
    # make queries scheduling points too
    def isfile(self, p): self.tick('isfile', p); return super().isfile(p)
    def isdir(self, p): self.tick('isdir', p); return super().isdir(p)
    def exists(self, p): self.tick('exists', p); return super().exists(p)

def related(p, q):
    return p == q or p.startswith(q + '/') or q.startswith(p + '/') 
def indep(x, y):
    (nx, ax), (ny, ay) = x, y
    if nx in READS and ny in READS: return True
    px = [p for p in ax if isinstance(p, str)]; py = [p for p in ay if isinstance(p, str)]
    # listdir depends on creation/removal of direct children
    for p in px:
        for q in py:
            if related(p, q): return False
            if nx == 'listdir' and posixpath.dirname(q) == p: return False
            if ny == 'listdir' and posixpath.dirname(p) == q: return False
    return True

def two_init(s0: int, s1: int, s2: int, s3: int, s4: int, s5: int, s6: int, s7: int, s8:int, s9:int, s10:int, s11:int, s12:int, s13:int, s14:int, s15:int, s16:int, s17:int, s18:int, s19:int, s20:int, s21:int, s22:int, s23:int) -> bool:
    assert all(0 <= s <= 1 for s in (s0,s1,s2,s3,s4,s5,s6,s7,s8,s9,s10,s11,s12,s13,s14,s15,s16,s17,s18,s19,s20,s21,s22,s23))
    sched = [s0,s1,s2,s3,s4,s5,s6,s7,s8,s9,s10,s11,s12,s13,s14,s15,s16,s17,s18,s19,s20,s21,s22,s23]
    with NoTracing():
        fs = SchedFS(); install(fs)
        pr = mkproject(fs)
        acts = []
        for i in range(2):
            def body():
                P.Project.open_job(pr, {'a': 1}).init()
            a = Actor(body, i); acts.append(a)
        for a in acts: a.start()
    last = None
    n = 0
    for s in sched:
        with NoTracing():
            live = [a for a in acts if not a.done]
        if not live: break
        if len(live) == 1:
            with NoTracing(): live[0].step(); last = None
            continue
        pick = 0 if s == 0 else 1
        with NoTracing():
            a = acts[pick]; op = a.pending
            bad = last is not None and last[0] > pick and indep(last[1], op)
        if bad:
            with NoTracing():
                while any(not a.done for a in acts):
                    for a in acts:
                        if not a.done: a.step()
            raise IgnoreAttempt('por')
        with NoTracing():
            a.step(); last = (pick, op); n += 1
    with NoTracing():
        while any(not a.done for a in acts):
            for a in acts:
                if not a.done: a.step()
        ok = all(a.exc is None for a in acts) and len(check_ws(fs, [{'a': 1}])) == 1
    assert ok
    return True
