import os, tempfile, shutil, json
import signac
from signac.sync import FileSync, DocSync
from signac.errors import FileSyncConflict, DocumentSyncConflict

def snap(root):
    out = {}
    for dp, dn, fn in os.walk(root):
        for d in dn: out[os.path.relpath(os.path.join(dp, d), root)] = None
        for f in fn:
            p = os.path.join(dp, f)
            with open(p, 'rb') as fh: out[os.path.relpath(p, root)] = fh.read()
    return out

def dry_run(src_has_extra_job: bool, file_conflict: bool, nested_doc: bool, v: int) -> bool:
    """
    pre: 0 <= v <= 1
    post: True
    """
    tmp = '/dev/shm/vf_%d' % os.getpid(); shutil.rmtree(tmp, ignore_errors=True); os.mkdir(tmp)
    try:
        a = signac.init_project(os.path.join(tmp, 'a')); b = signac.init_project(os.path.join(tmp, 'b'))
        ja = a.open_job({'x': 1}).init(); jb = b.open_job({'x': 1}).init()
        with open(ja.fn('f'), 'w') as f: f.write('src')
        if file_conflict:
            with open(jb.fn('f'), 'w') as f: f.write('dst')
        if nested_doc:
            ja.doc['n'] = {'k': v}; jb.doc['n'] = {'j': 0}
        else:
            ja.doc['k'] = v
        if src_has_extra_job:
            j2 = a.open_job({'x': 2}).init()
            with open(j2.fn('g'), 'w') as f: f.write('g')
        before = (snap(a.path), snap(b.path))
        try:
            b.sync(a, strategy=FileSync.always, dry_run=True)
        except (FileSyncConflict, DocumentSyncConflict):
            pass
        after = (snap(a.path), snap(b.path))
        assert before == after
        return True
    finally:
        shutil.rmtree(tmp)
