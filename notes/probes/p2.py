from typing import List, Dict, Union, Optional
from signac._search_indexer import _SearchIndexer

def eq_int(v0: int, v1: int, q: int) -> bool:
    """
    post: True
    """
    idx = _SearchIndexer({'j0': {'sp': {'a': v0}}, 'j1': {'sp': {'a': v1}}})
    res = idx.find({'sp.a': q})
    exp = {j for j, v in (('j0', v0), ('j1', v1)) if v == q}
    assert res == exp
    return True

def gt_int(v0: int, v1: int, q: int) -> bool:
    """
    post: True
    """
    idx = _SearchIndexer({'j0': {'sp': {'a': v0}}, 'j1': {'sp': {'a': v1}}})
    res = idx.find({'sp.a': {'$gt': q}})
    exp = {j for j, v in (('j0', v0), ('j1', v1)) if v > q}
    assert res == exp
    return True

def type_mixed(v0: Union[int, bool, str, None], v1: Union[int, bool, str, None]) -> bool:
    """
    post: True
    """
    idx = _SearchIndexer({'j0': {'sp': {'a': v0}}, 'j1': {'sp': {'a': v1}}})
    res = idx.find({'sp.a': {'$type': 'bool'}})
    exp = {j for j, v in (('j0', v0), ('j1', v1)) if isinstance(v, bool)}
    assert res == exp
    return True
