import json, types
from typing import Dict, Union, List, Tuple, Optional
import signac.job as J
from signac.job import calc_id

class _MD5:
    def __init__(self): self.b = None
    def update(self, b): self.b = b
    def hexdigest(self): return self.b
J.hashlib = types.SimpleNamespace(md5=_MD5)

def perm_bool(v0: Optional[bool], v1: Optional[bool]) -> bool:
    """
    post: True
    """
    a = {'a': v0, 'b': {'d': v1, 'c': [v0, v1]}}
    b = {'b': {'c': (v0, v1), 'd': v1}, 'a': v0}
    assert calc_id(a) == calc_id(b)
    return True

def perm_int(v0: int, v1: int) -> bool:
    """
    pre: -2 <= v0 <= 2 and -2 <= v1 <= 2
    post: True
    """
    a = {'a': v0, 'b': {'d': v1, 'c': [v0, v1]}}
    b = {'b': {'c': (v0, v1), 'd': v1}, 'a': v0}
    assert calc_id(a) == calc_id(b)
    return True

def distinct_int(v0: int, v1: int) -> bool:
    """
    pre: -2 <= v0 <= 2 and -2 <= v1 <= 2
    post: True
    """
    assert (calc_id({'a': v0}) == calc_id({'a': v1})) == (v0 == v1)
    return True

def distinct_mixed(v0: Union[int, bool, None], v1: Union[int, bool, None]) -> bool:
    """
    pre: (not isinstance(v0, int) or -2 <= v0 <= 2) and (not isinstance(v1, int) or -2 <= v1 <= 2)
    post: True
    """
    same_json = (type(v0) is type(v1)) and v0 == v1
    assert (calc_id({'a': v0}) == calc_id({'a': v1})) == same_json
    return True
