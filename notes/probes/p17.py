import threading
from typing import Union, Optional
import signac.project as P

Leaf = Union[int, bool, str, None]

def mk(corpus):
    pr = P.Project.__new__(P.Project)
    def _build_index(include_job_document=False):
        for jid, (sp, doc) in corpus.items():
            d = {'sp': sp}
            if include_job_document and doc is not None:
                d['doc'] = doc
            yield jid, d
    pr._build_index = _build_index
    pr._job_dirs = lambda: iter(corpus)
    return pr

def ok(v):
    return (not isinstance(v, int) or -1 <= v <= 1) and (not isinstance(v, str) or v in ('a', 'b'))

def not_doc(a0: Leaf, b0: Leaf, a1: Leaf, b1: Leaf, q: Leaf, has_b0: bool, has_b1: bool) -> bool:
    """
    pre: ok(a0) and ok(b0) and ok(a1) and ok(b1) and ok(q)
    post: True
    """
    corpus = {'j0': ({'a': a0}, {'b': b0} if has_b0 else {}), 'j1': ({'a': a1}, {'b': b1} if has_b1 else {})}
    pr = mk(corpus)
    res = set(pr._find_job_ids({'$not': {'doc.b': q}}))
    exp = {j for j, (sp, doc) in corpus.items() if not ('b' in doc and doc['b'] == q)}
    assert res == exp
    return True

def and_sp_doc(a0: Leaf, b0: Leaf, a1: Leaf, b1: Leaf, q: Leaf, r: Leaf) -> bool:
    """
    pre: ok(a0) and ok(b0) and ok(a1) and ok(b1) and ok(q) and ok(r)
    post: True
    """
    corpus = {'j0': ({'a': a0}, {'b': b0}), 'j1': ({'a': a1}, {'b': b1})}
    pr = mk(corpus)
    res = set(pr._find_job_ids({'$and': [{'a': q}, {'doc.b': r}]}))
    exp = {j for j, (sp, doc) in corpus.items() if sp['a'] == q and doc['b'] == r}
    assert res == exp
    return True
