import os, shutil, json
import signac
from signac.sync import FileSync
from signac.errors import FileSyncConflict, DocumentSyncConflict, SchemaSyncConflict
from crosshair.tracers import NoTracing
from crosshair.core import deep_realize

def snap(root):
    out = {}
    for dp, dn, fn in os.walk(root):
        for d in dn: out[os.path.relpath(os.path.join(dp, d), root)] = None
        for f in fn:
            p = os.path.join(dp, f)
            with open(p, 'rb') as fh: out[os.path.relpath(p, root)] = fh.read()
    return out

def setup(tmp, conflict, extra, v):
    a = signac.init_project(os.path.join(tmp, 'a')); b = signac.init_project(os.path.join(tmp, 'b'))
    ja = a.open_job({'x': 1}).init(); jb = b.open_job({'x': 1}).init()
    with open(ja.fn('f'), 'w') as f: f.write('src')
    if conflict:
        with open(jb.fn('f'), 'w') as f: f.write('dst')
    ja.doc['k'] = v
    if extra:
        j2 = a.open_job({'x': 2}).init()
    return a, b

def sync_always(conflict: bool, extra: bool, v: int, strat: int) -> bool:
    assert 0 <= v <= 1 and 0 <= strat <= 2
    cf, ex, vv, st = deep_realize((conflict, extra, v, strat))
    with NoTracing():
        tmp = '/dev/shm/vf_%d' % os.getpid(); shutil.rmtree(tmp, ignore_errors=True); os.mkdir(tmp)
        a, b = setup(tmp, cf, ex, vv)
        before_a = snap(a.path)
    strategy = [None, FileSync.always, FileSync.never][strat]
    try:
        b.sync(a, strategy=strategy, check_schema=False)
        ok = True
    except FileSyncConflict:
        ok = False
    with NoTracing():
        after_a = snap(a.path)
        res = (before_a == after_a) and (ok or (cf and st == 0))
        shutil.rmtree(tmp)
    assert res
    return True
