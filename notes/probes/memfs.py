"""Throwaway probe: in-memory FS substituted for os/shutil/open inside signac modules."""
import errno as E, io, os as real_os, posixpath, types

class Crash(BaseException):
    pass

class MemFS:
    def __init__(self):
        self.nodes = {'/': None}   # path -> None (dir) | bytes (file)
        self.step = 0
        self.crash_at = None       # symbolic/concrete int
        self.fail_at = None
        self.fail_errno = E.EIO
        self.log = []
        self.uuid_n = 0
    # fault / crash hook
    def tick(self, name, *a):
        k = self.step
        self.step += 1
        self.log.append((name,) + a)
        if self.crash_at is not None and k == self.crash_at:
            raise Crash(k)
        if self.fail_at is not None and k == self.fail_at:
            raise OSError(self.fail_errno, 'injected', a[0] if a else None)
    def _parent_ok(self, p):
        d = posixpath.dirname(p)
        if d not in self.nodes: raise FileNotFoundError(E.ENOENT, 'no parent', p)
        if self.nodes[d] is not None: raise NotADirectoryError(E.ENOTDIR, 'notdir', p)
    def children(self, p):
        pre = p.rstrip('/') + '/'
        return [k for k in self.nodes if k.startswith(pre) and k != p]
    # os.*
    def replace(self, a, b):
        self.tick('replace', a, b)
        if a not in self.nodes: raise FileNotFoundError(E.ENOENT, 'replace', a)
        self._parent_ok(b)
        if self.nodes[a] is None:
            if b in self.nodes:
                if self.nodes[b] is not None: raise NotADirectoryError(E.ENOTDIR, 'replace', b)
                if self.children(b): raise OSError(E.ENOTEMPTY, 'replace', b)
            sub = [(k, v) for k, v in self.nodes.items() if k == a or k.startswith(a + '/')]
            for k, _ in sub: del self.nodes[k]
            for k, v in sub: self.nodes[b + k[len(a):]] = v
        else:
            if b in self.nodes and self.nodes[b] is None: raise IsADirectoryError(E.EISDIR, 'replace', b)
            self.nodes[b] = self.nodes.pop(a)
    def remove(self, p):
        self.tick('remove', p)
        if p not in self.nodes: raise FileNotFoundError(E.ENOENT, 'remove', p)
        if self.nodes[p] is None: raise IsADirectoryError(E.EISDIR, 'remove', p)
        del self.nodes[p]
    unlink = remove
    def makedirs(self, p, exist_ok=False):
        self.tick('makedirs', p)
        parts = [x for x in p.split('/') if x]
        cur = ''
        for x in parts:
            cur += '/' + x
            if cur in self.nodes:
                if self.nodes[cur] is not None: raise FileExistsError(E.EEXIST, 'makedirs', cur)
            else:
                self.nodes[cur] = None
    def listdir(self, p):
        self.tick('listdir', p)
        if p not in self.nodes: raise FileNotFoundError(E.ENOENT, 'listdir', p)
        pre = p.rstrip('/') + '/'
        return sorted({k[len(pre):].split('/')[0] for k in self.nodes if k.startswith(pre)})
    def isfile(self, p): return self.nodes.get(p, None) is not None
    def isdir(self, p): return p in self.nodes and self.nodes[p] is None
    def exists(self, p): return p in self.nodes
    def rmtree(self, p):
        self.tick('rmtree', p)
        if p not in self.nodes: raise FileNotFoundError(E.ENOENT, 'rmtree', p)
        for k in [k for k in self.nodes if k == p or k.startswith(p + '/')]:
            del self.nodes[k]
    def open(self, p, mode='r'):
        fs = self
        if 'r' in mode:
            self.tick('open_r', p)
            if p not in self.nodes: raise FileNotFoundError(E.ENOENT, 'open', p)
            if self.nodes[p] is None: raise IsADirectoryError(E.EISDIR, 'open', p)
            return io.BytesIO(self.nodes[p])
        self.tick('open_w', p)
        self._parent_ok(p)
        self.nodes[p] = b''
        class W(io.BytesIO):
            def write(s, b):
                fs.tick('write', p)
                fs.nodes[p] = fs.nodes[p] + bytes(b)
                return len(b)
            def close(s):
                return None
        return W()

def fake_os(fs):
    ns = types.SimpleNamespace()
    ns.sep = '/'
    ns.pardir = '..'
    ns.replace, ns.remove, ns.unlink, ns.makedirs, ns.listdir = fs.replace, fs.remove, fs.unlink, fs.makedirs, fs.listdir
    ns.getcwd = lambda: '/'
    ns.path = types.SimpleNamespace(join=posixpath.join, split=posixpath.split, dirname=posixpath.dirname,
        basename=posixpath.basename, isfile=fs.isfile, isdir=fs.isdir, exists=fs.exists,
        abspath=posixpath.normpath, realpath=posixpath.normpath, normpath=posixpath.normpath, islink=lambda p: False, sep='/')
    return ns
