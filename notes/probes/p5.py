import json, types, threading
import memfs
import signac.job as J, signac._utility as U, signac.project as P
import synced_collections.backends.collection_json as CJ
from signac.job import Job, calc_id
from signac.errors import JobsCorruptedError

def install(fs):
    fo = memfs.fake_os(fs)
    for m in (J, U, CJ, P):
        m.os = fo
    U.os = types.SimpleNamespace(path=fo.path, makedirs=fo.makedirs)  # _utility imports os.path
    J.shutil = types.SimpleNamespace(rmtree=fs.rmtree)
    CJ.open = fs.open
    P.open = fs.open
    n = [0]
    def uuid4():
        n[0] += 1
        return f"u{n[0]}"
    CJ.uuid = types.SimpleNamespace(uuid4=uuid4)

def mkproject(fs):
    fs.nodes['/p'] = None; fs.nodes['/p/workspace'] = None
    pr = P.Project.__new__(P.Project)
    pr._path = '/p'; pr._workspace = '/p/workspace'; pr._lock = threading.RLock()
    pr._sp_cache = {}; pr._sp_cache_read = True; pr._sp_cache_misses = 0; pr._sp_cache_warned = False
    pr._sp_cache_miss_warning_threshold = 500; pr._document = None; pr._stores = None
    return pr

def check_ws(fs, valid_sps):
    """every job dir either validates or is detected; no forged; returns set of validating ids"""
    ok = set()
    for d in fs.listdir('/p/workspace'):
        fn = f'/p/workspace/{d}/signac_statepoint.json'
        if fs.isfile(fn):
            try:
                sp = json.loads(fs.nodes[fn])
            except ValueError:
                continue
            if calc_id(sp) == d:
                assert sp in valid_sps, ('forged', sp)
                ok.add(d)
    return ok

def rekey_crash(k: int) -> bool:
    """
    pre: 0 <= k <= 40
    post: True
    """
    fs = memfs.MemFS()
    install(fs)
    pr = mkproject(fs)
    job = pr.open_job({'a': 1}).init()
    fs.nodes[job.path + '/data.txt'] = b'payload'
    fs.step = 0
    fs.crash_at = k
    try:
        job.statepoint['a'] = 2
    except memfs.Crash:
        pass
    fs.crash_at = None
    # invariant: payload exists under exactly one directory
    holders = [p for p in fs.nodes if p.endswith('/data.txt')]
    assert len(holders) == 1, holders
    check_ws(fs, [{'a': 1}, {'a': 2}])
    return True

def rekey_crash_twin(k: int) -> bool:
    """
    pre: 0 <= k <= 40
    post: True
    """
    fs = memfs.MemFS()
    install(fs)
    pr = mkproject(fs)
    job = pr.open_job({'a': 1}).init()
    fs.nodes[job.path + '/data.txt'] = b'payload'
    fs.step = 0
    fs.crash_at = k
    try:
        job.statepoint['a'] = 2
    except memfs.Crash:
        pass
    fs.crash_at = None
    ok = check_ws(fs, [{'a': 1}, {'a': 2}])
    assert len(ok) == 1   # twin: expected to be VIOLATED at mid-protocol crash
    return True

if __name__ == '__main__':
    fs = memfs.MemFS(); install(fs); pr = mkproject(fs)
    job = pr.open_job({'a': 1}).init()
    print(fs.log); fs.log.clear()
    job.statepoint['a'] = 2
    for l in fs.log: print(l)
    print(sorted(fs.nodes))
