from signac._search_indexer import _SearchIndexer
import json

def eq_int(v0: int, v1: int, q: int) -> bool:
    """
    pre: 0 <= v0 <= 3 and 0 <= v1 <= 3 and 0 <= q <= 3
    post: True
    """
    idx = _SearchIndexer({'j0': {'sp': {'a': v0}}, 'j1': {'sp': {'a': v1}}})
    res = idx._find_result({'sp.a': q})
    exp = {j for j, v in (('j0', v0), ('j1', v1)) if v == q}
    assert res == exp
    return True

def norm(q: int) -> bool:
    """
    pre: 0 <= q <= 3
    post: True
    """
    f = json.loads(json.dumps({'sp.a': q}))
    assert f['sp.a'] == q
    return True
