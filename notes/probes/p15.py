import os, tempfile, shutil, json
import signac

def two(a: bool, b: bool, c: bool) -> bool:
    """
    post: True
    """
    tmp = '/dev/shm/vf_%d' % os.getpid(); shutil.rmtree(tmp, ignore_errors=True); os.mkdir(tmp)
    try:
        p = signac.init_project(os.path.join(tmp, 'a'))
        j = p.open_job({'x': 1 if a else 2}).init()
        if b: j.doc['k'] = 1
        if c: p.open_job({'x': 3}).init()
        assert len(p) == (2 if c else 1)
        return True
    finally:
        shutil.rmtree(tmp)
