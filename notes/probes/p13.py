import os
from typing import Dict, Union, List, Tuple, Optional
from signac.import_export import _make_path_based_schema_function, _convert_bool
from signac.filterparse import parse_filter_arg, _cast, parse_simple

def schema_rt_int(v: int) -> bool:
    """
    pre: -1000 < v < 1000
    post: True
    """
    f = _make_path_based_schema_function('data/foo/{foo:int}')
    sp = f(os.path.join('data', 'foo', str(v)))
    assert sp == {'foo': v}
    return True

def schema_rt_str(s: str) -> bool:
    """
    pre: 1 <= len(s) <= 2 and all(c.isalnum() or c == '_' for c in s)
    post: True
    """
    f = _make_path_based_schema_function('data/foo/{foo}')
    sp = f(os.path.join('data', 'foo', s))
    assert sp == {'foo': s}
    return True

def cast_int(v: int) -> bool:
    """
    pre: -1000 < v < 1000
    post: True
    """
    assert _cast(str(v)) == v and type(_cast(str(v))) is int
    return True

def cli_vs_json(v: int, k: str) -> bool:
    """
    pre: -1000 < v < 1000
    pre: k in ('a', 'sp.a', 'doc.b', 'a.b')
    post: True
    """
    q1 = parse_filter_arg([k, str(v)])
    assert q1 == {k: v}
    return True
