import json, types
from typing import Dict, Union, List, Tuple, Optional
import signac.job as J
from signac.job import calc_id

class _MD5:
    def __init__(self): self.b = None
    def update(self, b): self.b = b
    def hexdigest(self): return self.b
J.hashlib = types.SimpleNamespace(md5=_MD5)

def distinct_int_big(v0: int, v1: int) -> bool:
    """
    pre: -2**53 < v0 < 2**53 and -2**53 < v1 < 2**53
    post: True
    """
    assert (calc_id({'a': v0}) == calc_id({'a': v1})) == (v0 == v1)
    return True

def distinct_int_1000(v0: int, v1: int) -> bool:
    """
    pre: -1000 < v0 < 1000 and -1000 < v1 < 1000
    post: True
    """
    assert (calc_id({'a': v0}) == calc_id({'a': v1})) == (v0 == v1)
    return True

def strval1(s: str, t: str) -> bool:
    """
    pre: len(s) <= 1 and len(t) <= 1
    post: True
    """
    ida, idb = calc_id({'a': s}), calc_id({'a': t})
    assert (ida == idb) == (s == t)
    return True

def strascii(s: str) -> bool:
    """
    pre: len(s) <= 1
    post: True
    """
    ida = calc_id({'a': s})
    assert all(c < 128 for c in ida)
    return True

def keyorder(k0: str, k1: str) -> bool:
    """
    pre: len(k0) <= 1 and len(k1) <= 1 and k0 != k1
    post: True
    """
    assert calc_id({k0: 0, k1: 1}) == calc_id({k1: 1, k0: 0})
    return True
