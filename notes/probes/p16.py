import re, time
try:
    import re._parser as sp, re._constants as sc
except ImportError:
    import sre_parse as sp, sre_constants as sc
import z3
from signac.import_export import RE_TYPES, _convert_schema_path_to_regex
from signac.project import JOB_ID_REGEX

def cls_item(op, av):
    if op is sc.LITERAL: return z3.Re(chr(av))
    if op is sc.RANGE: return z3.Range(chr(av[0]), chr(av[1]))
    if op is sc.CATEGORY:
        if av is sc.CATEGORY_DIGIT: return z3.Range('0','9')
        if av is sc.CATEGORY_WORD: return z3.Union(z3.Range('0','9'), z3.Range('a','z'), z3.Range('A','Z'), z3.Re('_'))  # ASCII approx
        if av is sc.CATEGORY_SPACE: return z3.Union(*[z3.Re(c) for c in ' \t\n\r\f\v'])
    raise NotImplementedError((op, av))

def tr(seq):
    parts = []
    for op, av in seq:
        if op is sc.LITERAL: parts.append(z3.Re(chr(av)))
        elif op is sc.IN:
            neg = av and av[0][0] is sc.NEGATE
            items = [cls_item(o, a) for o, a in av if o is not sc.NEGATE]
            u = items[0] if len(items) == 1 else z3.Union(*items)
            parts.append(z3.Intersect(z3.AllChar(z3.ReSort(z3.StringSort())), z3.Complement(u)) if neg else u)
        elif op is sc.MAX_REPEAT or op is sc.MIN_REPEAT:
            lo, hi, sub = av
            r = tr(sub)
            if hi is sc.MAXREPEAT:
                parts.append(z3.Star(r) if lo == 0 else (z3.Plus(r) if lo == 1 else z3.Concat(*([r]*lo + [z3.Star(r)]))))
            else:
                parts.append(z3.Loop(r, lo, hi))
        elif op is sc.SUBPATTERN:
            parts.append(tr(av[3]))
        elif op is sc.BRANCH:
            parts.append(z3.Union(*[tr(b) for b in av[1]]))
        elif op is sc.ANY:
            parts.append(z3.Intersect(z3.AllChar(z3.ReSort(z3.StringSort())), z3.Complement(z3.Re('\n'))))
        elif op is sc.AT:
            if av in (sc.AT_END,): parts.append(('AT_END',))
            else: raise NotImplementedError(av)
        else:
            raise NotImplementedError((op, av))
    # handle trailing $ : matches at end or before final newline
    out = []
    for p in parts:
        if isinstance(p, tuple): out.append(z3.Option(z3.Re('\n')))  # '$' allows one trailing newline
        else: out.append(p)
    if not out: return z3.Re('')
    return out[0] if len(out) == 1 else z3.Concat(*out)

def lang(pattern): return tr(sp.parse(pattern))

s = z3.String('s')
t0 = time.time()
# 1. JOB_ID_REGEX.match(d) accepts non-32-hex names?
hex32 = z3.Loop(z3.Union(z3.Range('0','9'), z3.Range('a','f')), 32, 32)
anyc = z3.Full(z3.ReSort(z3.StringSort()))
sol = z3.Solver()
sol.add(z3.InRe(s, z3.Concat(lang(JOB_ID_REGEX.pattern), anyc)))   # .match = prefix match
sol.add(z3.Not(z3.InRe(s, hex32)))
print('jobid prefix-match vs exact:', sol.check(), time.time()-t0)
if str(sol.check()) == 'sat': print(repr(sol.model()[s].as_string()))
# 2. int renderings subset of RE_TYPES['int']
intr = z3.Concat(z3.Option(z3.Re('-')), z3.Union(z3.Re('0'), z3.Concat(z3.Range('1','9'), z3.Star(z3.Range('0','9')))))
sol = z3.Solver(); sol.add(z3.InRe(s, intr)); sol.add(z3.Not(z3.InRe(s, lang(RE_TYPES['int']))))
t0 = time.time(); print('int renderings not matched:', sol.check(), time.time()-t0)
# 3. plain decimal float renderings subset of RE_TYPES['float']
fr = z3.Concat(z3.Option(z3.Re('-')), z3.Union(z3.Re('0'), z3.Concat(z3.Range('1','9'), z3.Star(z3.Range('0','9')))), z3.Re('.'), z3.Plus(z3.Range('0','9')))
sol = z3.Solver(); sol.add(z3.InRe(s, fr)); sol.add(z3.Not(z3.InRe(s, lang(RE_TYPES['float']))))
t0 = time.time(); print('float renderings not matched:', sol.check(), time.time()-t0)
# 4. full schema regex from the real converter: matched strings never contain extra path segments
rx, types = _convert_schema_path_to_regex('data/a/{a:int}/b/{b}')
print(rx)
L = lang(rx)
sol = z3.Solver(); sol.add(z3.InRe(s, L))
seg = z3.Plus(z3.Intersect(z3.AllChar(z3.ReSort(z3.StringSort())), z3.Complement(z3.Re('/'))))
spec = z3.Concat(z3.Re('data/a/'), seg, z3.Re('/b/'), seg, z3.Option(z3.Re('\n')))
sol.add(z3.Not(z3.InRe(s, spec)))
t0 = time.time(); print('schema regex matches outside layout:', sol.check(), time.time()-t0)
