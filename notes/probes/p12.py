import json, types, copy
from typing import Dict, Union, List, Tuple, Optional
from signac.sync import DocSync
from signac.errors import DocumentSyncConflict

Leaf = Union[int, bool, None]

def bykey_nested(a: Leaf, b: Leaf, c: Leaf, d: Leaf, pa: bool, pb: bool, strat_top: bool, strat_nested: bool) -> bool:
    """
    pre: all((not isinstance(x, int)) or -1 <= x <= 1 for x in (a, b, c, d))
    post: True
    """
    # src/dst docs: {'x': leaf?, 'n': {'m': {'y': leaf?}}}
    src = {'x': a, 'n': {'m': {'y': b}}}
    dst = {}
    if pa: dst['x'] = c
    if pb: dst['n'] = {'m': {'y': d}}
    calls = []
    def ks(key):
        calls.append(key)
        return strat_top if key == 'x' else strat_nested
    dst0 = copy.deepcopy(dst)
    DocSync.ByKey(ks)(src, dst)
    # reference merge
    exp = copy.deepcopy(dst0)
    if 'x' not in exp or exp['x'] == a or strat_top: exp['x'] = a
    if 'n' not in exp: exp['n'] = {'m': {'y': b}}
    elif exp['n']['m']['y'] != b and strat_nested: exp['n']['m']['y'] = b
    assert dst == exp
    assert all(k in ('x', 'n.m.y') for k in calls), calls
    return True
