import json, types, os
from typing import Union, Optional
import signac.job as J
from signac.job import calc_id
from signac._search_indexer import _SearchIndexer
from signac.import_export import _make_path_based_schema_function
import signac.project as P

class _MD5:
    def __init__(self): self.b = None
    def update(self, b): self.b = b
    def hexdigest(self): return self.b
J.hashlib = types.SimpleNamespace(md5=_MD5)

def strval1(s: str, t: str) -> bool:
    assert len(s) <= 1 and len(t) <= 1
    ida, idb = calc_id({'a': s}), calc_id({'a': t})
    assert (ida == idb) == (s == t)
    return True

def keyorder(k0: str, k1: str) -> bool:
    assert len(k0) <= 1 and len(k1) <= 1 and k0 != k1
    assert calc_id({k0: 0, k1: 1}) == calc_id({k1: 1, k0: 0})
    return True

def eq_int(v0: int, v1: int, q: int) -> bool:
    assert 0 <= v0 <= 3 and 0 <= v1 <= 3 and 0 <= q <= 3
    idx = _SearchIndexer({'j0': {'sp': {'a': v0}}, 'j1': {'sp': {'a': v1}}})
    res = idx._find_result({'sp.a': q})
    exp = {j for j, v in (('j0', v0), ('j1', v1)) if v == q}
    assert res == exp
    return True

def schema_rt_int(v: int) -> bool:
    assert -1000 < v < 1000
    f = _make_path_based_schema_function('data/foo/{foo:int}')
    sp = f(os.path.join('data', 'foo', str(v)))
    assert sp == {'foo': v}
    return True

def distinct_int_big(v0: int, v1: int) -> bool:
    assert -2**53 < v0 < 2**53 and -2**53 < v1 < 2**53
    assert (calc_id({'a': v0}) == calc_id({'a': v1})) == (v0 == v1)
    return True
