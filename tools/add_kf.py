"""development aid: tools/add_kf.py <property> <id> <status> <commit|-> <harness> <predicate> <what...>  -- appends an entry to known_findings.json"""
import json, sys
prop, kid, status, commit, harness, pred = sys.argv[1:7]
what = " ".join(sys.argv[7:])
fn = "/verif/known_findings.json"
d = json.load(open(fn))
assert not any(e["id"] == kid for e in d["findings"]), "duplicate id"
e = {"property": prop, "id": kid, "status": status}
if commit != "-":
    e["commit"] = commit
e["signature"] = {"harness": harness, "predicate": pred}
e["what"] = (f"fixed: property={prop} {commit} " if status == "fixed" else "") + what
d["findings"].append(e)
json.dump(d, open(fn, "w"), indent=1)
print("added", kid)
