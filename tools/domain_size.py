#!/usr/bin/env python3
"""development aid: counts, per harness and tier, the argument tuples that satisfy the leading asserts (the preconditions) by brute force.
Only for sizing the tiers; not part of any check."""
import ast, itertools, os, sys, importlib, inspect, textwrap
sys.path[:0] = ["/verif", "/verif/harness"]
pid, tier = sys.argv[1], sys.argv[2]
os.environ["VERIF_TIER"] = tier
mod = importlib.import_module(pid)
for h in mod.HARNESSES:
    if tier not in h.get("tiers", ("quick", "thorough")):
        continue
    fn = getattr(mod, h["name"])
    src = textwrap.dedent(inspect.getsource(fn))
    tree = ast.parse(src).body[0]
    pre = []
    for st in tree.body:
        if isinstance(st, ast.Expr) and isinstance(st.value, ast.Constant):
            continue
        if isinstance(st, ast.Assert):
            pre.append(st.test)
        else:
            break
    args = [(a.arg, getattr(a.annotation, "id", "int")) for a in tree.args.args]
    rng = {}
    for t in pre:
        for node in ast.walk(t):
            if isinstance(node, ast.Compare) and len(node.ops) == 2 and isinstance(node.comparators[0], ast.Name):
                try:
                    lo = ast.literal_eval(node.left)
                    hi = eval(compile(ast.Expression(node.comparators[1]), "x", "eval"), vars(mod))
                except Exception:
                    continue
                name = node.comparators[0].id
                lo2 = lo + (1 if isinstance(node.ops[0], ast.Lt) else 0)
                hi2 = hi - (1 if isinstance(node.ops[1], ast.Lt) else 0)
                if name not in rng:
                    rng[name] = (lo2, hi2)
                else:
                    rng[name] = (min(rng[name][0], lo2), max(rng[name][1], hi2))
    doms, unknown = [], []
    for a, ty in args:
        if ty == "bool":
            doms.append([False, True])
        elif a in rng:
            doms.append(list(range(rng[a][0], rng[a][1] + 1)))
        else:
            unknown.append(a); doms.append([0])
    total = 1
    for d in doms:
        total *= len(d)
    if total > 3e7:
        print(f"{pid}.{h['name']} {tier}: product of ranges {total:.3g} too large to enumerate (unknown {unknown})")
        continue
    env = dict(vars(mod)); env["part_ok"] = lambda i: True; env["kf_filter"] = lambda *a: True
    code = [compile(ast.Expression(t), "pre", "eval") for t in pre]
    names = [a for a, _ in args]
    n = 0
    for tup in itertools.product(*doms):
        loc = dict(zip(names, tup))
        try:
            if all(eval(c, env, loc) for c in code):
                n += 1
        except Exception:
            pass
    print(f"{pid}.{h['name']} {tier}: {n} argument tuples (ranges product {total}; unranged args {unknown})")
