"""C17 — a linked view is an exact, self-healing picture of the selected jobs (E4: real file system with real symlinks)."""
import json, os, shutil
import signac
from vflib import synclib as SL
from vflib.hutil import pick, reached, part_ok, kf_filter, spy, tier, fresh_path, nt, ci, cb, discard
import signac.linked_view as LV

for _a in ("create_linked_view", "_update_view", "_analyze_view", "_find_dead_branches", "_build_tree", "_color_path"):
    spy(LV, _a)
CODE = ["signac.linked_view.create_linked_view / _update_view / _analyze_view / _make_link / _find_all_links / _build_tree / _color_path / _find_dead_branches", "signac.import_export._make_path_function / _check_directory_structure_validity",
        "signac.project.Project.create_linked_view"]
BOUNDS = {"universe": "6 state points over a in {0,1}, b in {'x y', 'é.z'} (space, dot, non-ASCII), a job without b, a nested key n.c; plus two unrepresentable ones (a value that textually collides: a='1' next to a=1; a value containing os.sep)",
          "history": "create view for ANY subset m1 of the universe, change the workspace to ANY subset m2 (jobs added / removed; a re-key is a removal plus an addition of the same directory content), create the view again, then a third time",
          "selection": "all jobs or all but the first (job_ids)", "path": "automatic or 'a_{a}/{{auto}}' style custom path"}
OUTSIDE = ["views on file systems without symlinks", "more than 6 jobs"]
STUBS = []
ASSUMPTIONS = ["tmpfs symlink semantics"]

U = [{"a": 0, "b": "x y"}, {"a": 1, "b": "x y"}, {"a": 0, "b": "é.z"}, {"a": 1, "b": "é.z"}, {"a": 0}, {"a": 1, "n": {"c": 0}}]
BAD = [{"a": "1", "b": "x y"}, {"a": "p/q"}, {"a": "", "b": "x y"}]


def _walk(view):
    """{relpath: ('dir',) | ('link', resolved target)}"""
    out = {}
    if not os.path.lexists(view):
        return out
    for dp, dn, fn in os.walk(view):
        for n in list(dn) + list(fn):
            p = os.path.join(dp, n)
            rel = os.path.relpath(p, view)
            if os.path.islink(p):
                out[rel] = ("link", os.path.realpath(p), os.readlink(p))
            elif os.path.isdir(p):
                out[rel] = ("dir",)
            else:
                out[rel] = ("file",)
    return out


def _stamps(view):
    out = {}
    for dp, dn, fn in os.walk(view):
        for n in list(dn) + list(fn) + ["."]:
            p = os.path.join(dp, n)
            st = os.lstat(p)
            out[os.path.relpath(p, view)] = (st.st_mtime_ns, st.st_ino)
    return out


def _flat(sp, pre=""):
    out = {}
    for k, v in sp.items():
        if isinstance(v, dict) and v:
            out.update(_flat(v, pre + k + "."))
        else:
            out[pre + k] = v
    return out


def _exact(view, project, ids, custom):
    """the walk of the view: exactly one 'job' link per selected job resolving to its directory, nothing else but the directories leading there;
    with the automatic path every (key, value) pair on the way spells the job's own state point"""
    problems = []
    w = _walk(view)
    links = {k: v for k, v in w.items() if v[0] == "link"}
    want_targets = {os.path.realpath(project.open_job(id=i).path): i for i in ids}
    got_targets = {}
    for k, v in links.items():
        if os.path.basename(k) != "job":
            problems.append(("link not named job", k))
        got_targets.setdefault(v[1], []).append(k)
        if os.path.isabs(v[2]):
            problems.append(("absolute link target", k))
    if set(got_targets) != set(want_targets):
        problems.append(("link targets", sorted(got_targets), sorted(want_targets)))
    for t, ks in got_targets.items():
        if len(ks) != 1:
            problems.append(("duplicate links for one job", ks))
    needed_dirs = set()
    for k in links:
        parts = k.split(os.sep)[:-1]
        for i in range(1, len(parts) + 1):
            needed_dirs.add(os.sep.join(parts[:i]))
    for k, v in w.items():
        if v[0] == "dir" and k not in needed_dirs:
            problems.append(("superfluous (empty / dead) directory", k))
        if v[0] == "file":
            problems.append(("unexpected file", k))
    if not custom:
        for t, ks in got_targets.items():
            if t not in want_targets:
                continue
            sp = _flat(project.open_job(id=want_targets[t]).statepoint())
            toks = ks[0].split(os.sep)[:-1]
            if toks in ([], ["."]):
                continue
            if len(toks) % 2:
                problems.append(("odd number of path tokens", ks[0]))
                continue
            for kk, vv in zip(toks[::2], toks[1::2]):
                if kk not in sp or str(sp[kk]) != vv:
                    problems.append(("path does not spell the job's state point", ks[0], kk, vv))
    return problems


def _set_workspace(project, mask, bad, U=None):
    U = U or globals()["U"]
    want = {signac.job.calc_id(U[i]) for i in range(len(U)) if mask >> i & 1}
    bad_sps = [BAD[i] for i in range(len(BAD)) if bad >> i & 1]
    want |= {signac.job.calc_id(sp) for sp in bad_sps}
    for job in list(project):
        if job.id not in want:
            job.remove()
    for i in range(len(U)):
        if mask >> i & 1:
            j = project.open_job(U[i]).init()
            with open(j.fn("data"), "w") as f:
                f.write(str(i))
    for sp in bad_sps:
        project.open_job(sp).init()


def _case(m1, m2, bad2, sel, custom, U=None):
    with SL.Scratch() as sc:
        project = signac.init_project(os.path.join(sc.root, "p"))
        view = os.path.join(sc.root, "view")
        scratch_view = os.path.join(sc.root, "view_fresh")
        problems = []
        path = "a_{a}/{{auto}}" if custom else None

        def ids():
            all_ = sorted(j.id for j in project)
            if sel == 2:
                return []          # an empty selection: a view without links
            return all_[1:] if (sel in (1, 3) and len(all_) > 1) else all_

        def make(prefix):
            kw = dict(prefix=prefix, path=path)
            if sel:
                kw["job_ids"] = ids() if sel != 3 else (i for i in ids())     # 3: a one-shot iterable (the parameter is documented as an iterable)
            ws_before = SL.snap(project.workspace)
            try:
                project.create_linked_view(**kw)
                if SL.snap(project.workspace) != ws_before:
                    problems.append(("creating the view altered the workspace (job directories)", sorted(set(SL.snap(project.workspace)) ^ set(ws_before))[:3]))
                return "ok"
            except RuntimeError as e:
                return "RuntimeError"
            except Exception as e:  # noqa
                return ("error", type(e).__name__, str(e)[:120])

        _set_workspace(project, m1, 0, U)
        r1 = make(view)
        if r1 == "ok":
            problems += [("first view",) + p for p in _exact(view, project, ids(), custom)]
        elif r1 != "RuntimeError":
            problems.append(("first view raised", r1))
        before = _walk(view)
        _set_workspace(project, m2, bad2, U)
        r2 = make(view)
        rf = make(scratch_view)
        if r2 != rf:
            problems.append(("incremental outcome differs from the from-scratch outcome", r2, rf))
        if r2 == "ok":
            problems += [("second view",) + p for p in _exact(view, project, ids(), custom)]
            a, b = _walk(view), _walk(scratch_view)
            strip = lambda w: {k: v[:2] for k, v in w.items()}
            if strip(a) != strip(b):
                problems.append(("incremental view differs from a from-scratch build", sorted(set(a) ^ set(b))[:4]))
            st = _stamps(view)
            r3 = make(view)
            if r3 != "ok" or _stamps(view) != st or _walk(view) != a:
                problems.append(("re-running on an up-to-date view is not a no-op", r3))
        elif r2 == "RuntimeError":
            if _walk(view) != before:
                problems.append(("rejected input altered the existing view",))
            if not bad2 and not custom and _homogeneous(project, ids()) and not _unrepresentable(project, ids()):
                problems.append(("representable homogeneous input was rejected",))
        else:
            problems.append(("second view raised", r2))
        return problems


def _unrepresentable(project, ids):
    """a key or value that is no directory name: contains the separator, or is '.' / '..'"""
    for i in ids:
        for k, v in _flat(project.open_job(id=i).statepoint()).items():
            for x in (k, v):
                if isinstance(x, str) and (os.sep in x or x in ("", ".", "..")):
                    return True
    return False


def _homogeneous(project, ids):
    keys = [tuple(sorted(_flat(project.open_job(id=i).statepoint()))) for i in ids]
    return len(set(keys)) <= 1


def h_view(m1: int, m2: int, bad2: int, sel: int, custom: bool):
    assert 0 <= m1 < 64 and 0 <= m2 < 64 and bad2 in (0, 1, 2, 4) and 0 <= sel <= 3 and part_ok(m2)
    assert tier() != "quick" or (m1 in (0, 3, 15, 21, 48, 63) and bad2 in (0, 1, 4))
    assert sel < 2 or (not custom and bad2 == 0 and m1 in (0, 3, 63))
    fresh_path()
    m1, m2, bad2, sel, custom = ci(m1, 0, 63), ci(m2, 0, 63), ci(bad2, 0, 4), ci(sel, 0, 3), cb(custom)
    with nt():
        problems = _case(m1, m2, bad2, sel, custom)
    reached()
    assert not problems


def h_view__reach(m1: int, m2: int, bad2: int, sel: bool, custom: bool):
    assert 0 <= m1 < 64 and 0 <= m2 < 64 and 0 <= bad2 <= 2
    m1, m2 = ci(m1, 0, 63), ci(m2, 0, 63)
    with nt():
        with SL.Scratch() as sc:
            project = signac.init_project(os.path.join(sc.root, "p"))
            view = os.path.join(sc.root, "view")
            _set_workspace(project, m1, 0)
            try:
                project.create_linked_view(prefix=view)
                w1 = _walk(view)
                _set_workspace(project, m2, 0)
                project.create_linked_view(prefix=view)
                w2 = _walk(view)
                healed = bool(set(w1) - set(w2)) and bool(set(w2) - set(w1))
            except RuntimeError:
                healed = False
    assert not healed  # twin: an update that both removes and adds view entries is reachable


# a state point key that is itself called 'job' (the name of the links), and values that are path expressions
UJ = [{"job": 0}, {"job": 1}, {"job": 0, "b": 1}, {"a": ".."}, {"a": "."}, {"a": "x"}]
UK = [{"a": "x"}, {"a": "y"}, {"a": "x", "job": 1}, {"a": "x", "job": 2}, {"a": "x", "job": 3}, {"a": "job"}]   # a key called like the links that only some jobs have (more values than a: it comes later in the path); a value spelled like the link name


def h_view_names(m1: int, m2: int, sel: int):
    assert 0 <= m1 < 64 and 0 <= m2 < 64 and 0 <= sel <= 1 and part_ok(m2)
    assert (m1 < 8 and m2 < 8) or (m1 & 7 == 0 and m2 & 7 == 0)       # the 'job'-key family and the dot family are explored separately
    fresh_path()
    m1, m2, sel = ci(m1, 0, 63), ci(m2, 0, 63), ci(sel, 0, 1)
    with nt():
        problems = _case(m1, m2, 0, sel, False, UJ)
    reached()
    assert not problems


def h_view_names2(m1: int, m2: int, sel: int):
    assert 0 <= m1 < 64 and 0 <= m2 < 64 and 0 <= sel <= 1 and part_ok(m2)
    assert tier() != "quick" or m1 in (0, 1, 3, 28, 35, 63)
    fresh_path()
    m1, m2, sel = ci(m1, 0, 63), ci(m2, 0, 63), ci(sel, 0, 1)
    with nt():
        problems = _case(m1, m2, 0, sel, False, UK)
    reached()
    assert not problems


HARNESSES = [
    dict(name="h_view", twin="h_view__reach", timeout=(900, 3000), parts=(16, 32), unblock=True),
    dict(name="h_view_names", timeout=(300, 600), parts=(4, 4), unblock=True),
    dict(name="h_view_names2", timeout=(400, 800), parts=(8, 8), unblock=True),
]
