"""C01 — job id = MD5 of the canonical JSON text (E1: CrossHair over the real calc_id / Job / open_job).

md5 is replaced by an *injective uninterpreted hash* (hexdigest returns the hashed message) so the solver reasons about the
canonical text; under VF_REPLAY and in extra_checks the real hashlib is used.
"""
import json, os, types, threading
from typing import Optional, Union

import signac.job as J
import signac.project as P
from signac.job import calc_id
from vflib import refs
from vflib.hutil import pick, reached, part_ok, kf_filter, nt, spy, tier, fresh_path

REPLAY = bool(os.environ.get("VF_REPLAY"))


class _MD5:
    def __init__(self):
        self.b = b""

    def update(self, b):
        self.b = self.b + b

    def hexdigest(self):
        return self.b.decode()


if not REPLAY:
    J.hashlib = types.SimpleNamespace(md5=_MD5)
for _m, _a in ((J, "calc_id"),):
    spy(_m, _a)
P.calc_id = J.calc_id
calc_id = J.calc_id

CODE = ["signac.job.calc_id", "signac.job.Job.__init__", "signac.project.Project.open_job", "signac.job.Job.statepoint",
        "synced_collections.utils.SyncedCollectionJSONEncoder", "json.dumps (CrossHair's traced pure-Python encoder path)"]
BOUNDS = {"ints": "|x| <= 1000 (symbolic)", "leaf types": "None, bool, int symbolic; str from a 9-symbol escape-class alphabet, float from a 7-value table (by symbolic index)",
          "shapes": "flat <=3 keys (all 6 insertion orders), nested depth 3 with list/tuple/JSONAttrDict spellings, empty containers",
          "keys": "from {a, b, c, d, e, ab, \"\", 'é'}"}
OUTSIDE = ["ints beyond +-1000", "arbitrary Unicode strings", "float formatting algorithm (C repr), NaN/Infinity", "MD5 collision-freeness (assumed)", "numpy leaves"]
STUBS = ["signac.job.hashlib.md5 -> injective identity hash (hexdigest = message); real hashlib under replay and for the golden ids"]
ASSUMPTIONS = ["MD5 is collision free on the explored values", "CrossHair's model of json.dumps/str/int agrees with CPython (every counterexample is replayed on CPython; golden ids and twin witnesses re-checked with the C encoder)"]

Leaf = Union[None, bool, int]
SIGMA = ["", "a", "b", '"', "\\", "\n", "é", "€", "\U0001F600"]
FLOATS = [0.0, -0.0, 1.0, 1.5, 1e-05, 1e22, 0.1]
PERMS3 = [(0, 1, 2), (0, 2, 1), (1, 0, 2), (1, 2, 0), (2, 0, 1), (2, 1, 0)]


def okleaf(v):
    return v is None or isinstance(v, bool) or -1000 <= v <= 1000


def expect_id(v):
    """what calc_id must return under the active hash"""
    t = refs.canon(v)
    return refs.hashlib.md5(t.encode()).hexdigest() if REPLAY else t


OB = Optional[bool]


def h_leaves(v0: Leaf, v1: Leaf):
    """rendering of every leaf class (None / bool / int by sign and digit count) next to each other, keys sorted"""
    assert okleaf(v0) and okleaf(v1)
    fresh_path()
    d = {"b": v0, "a": v1}
    got = calc_id(d)
    reached()
    assert got == expect_id({"a": v1, "b": v0})


def h_leaves3(v0: Leaf, v1: Leaf, v2: Leaf, perm: int):
    """thorough: three full leaves x all insertion orders"""
    assert okleaf(v0) and okleaf(v1) and okleaf(v2) and 0 <= perm < 6 and part_ok(perm)
    fresh_path()
    keys = ["b", "a", "ab"]
    vals = [v0, v1, v2]
    d = {}
    for i in PERMS3[perm]:
        d[keys[i]] = vals[i]
    got = calc_id(d)
    reached()
    assert got == expect_id({"a": v1, "ab": v2, "b": v0})


def h_canon_flat(v0: OB, v1: OB, v2: Leaf, perm: int, nkeys: int):
    assert okleaf(v2) and 0 <= perm < 6 and 1 <= nkeys <= 3
    fresh_path()
    keys = ["b", "a", "ab"]
    vals = [v0, v1, v2]
    d = {}
    for i in PERMS3[perm]:
        if i < nkeys:
            d[keys[i]] = vals[i]
    ref = {keys[i]: vals[i] for i in range(nkeys)}
    got = calc_id(d)
    reached()
    assert got == expect_id(ref)
    assert got == calc_id(ref)


def h_canon_flat__reach(v0: OB, v1: OB, v2: Leaf, perm: int, nkeys: int):
    assert okleaf(v2) and 0 <= perm < 6 and 1 <= nkeys <= 3
    fresh_path()
    got = calc_id({"b": v0, "ab": v2})
    assert got != expect_id({"ab": 7, "b": False})  # twin: must be violated (reachability + solver finds the exact leaves)


def _nested(v0, v1, v2, spelling):
    seq = (lambda *x: list(x)) if spelling % 2 == 0 else (lambda *x: tuple(x))
    inner = {"e": v2, "": seq()}
    d = {"a": v0, "b": {"d": v1, "c": seq(v0, v1, inner, seq(v2))}, "é": {}}
    return d


def h_canon_nested(v0: Leaf, v1: OB, v2: OB, spelling: int):
    assert okleaf(v0) and 0 <= spelling < 4
    fresh_path()
    d = _nested(v0, v1, v2, spelling)
    if spelling >= 2:
        # reversed insertion order at every level
        d = {"é": {}, "b": {"c": d["b"]["c"], "d": v1}, "a": v0}
    ref = _nested(v0, v1, v2, 0)
    got = calc_id(d)
    reached()
    assert got == expect_id(ref)


def h_canon_nested__reach(v0: Leaf, v1: OB, v2: OB, spelling: int):
    assert okleaf(v0) and 0 <= spelling < 4
    fresh_path()
    got = calc_id(_nested(v0, v1, v2, spelling))
    assert got != expect_id(_nested(-3, None, True, 0))


def h_synced_spelling(v0: Leaf, v1: OB):
    """dict vs synced-collection (_StatePointDict and its nested children) spelling of the same value"""
    assert okleaf(v0)
    fresh_path()
    plain = {"a": v0, "b": {"c": [v1, {"d": v0}]}}
    sc = J._StatePointDict(jobs=[], filename="/vf_nonexistent/sp.json", data={"b": {"c": (v1, {"d": v0})}, "a": v0})
    got = calc_id(sc)
    reached()
    assert got == expect_id(plain)
    assert calc_id(sc["b"]) == expect_id(plain["b"])
    assert calc_id({"x": sc["b"]["c"]}) == expect_id({"x": plain["b"]["c"]})


def _mk(kind, val):
    if kind == 0:
        return None
    if kind == 1:
        return val % 2 == 1
    if kind == 2:
        return val
    if kind == 3:
        return pick(SIGMA, val % len(SIGMA))
    return pick(FLOATS, val % len(FLOATS))


def h_distinct(k0: int, x0: int, k1: int, x1: int, shape: int):
    """ids equal  <=>  same JSON value (type-exact), for leaves incl. strings and floats, in three positions"""
    assert 0 <= k0 <= 4 and 0 <= k1 <= 4 and 0 <= x0 <= 9 and 0 <= x1 <= 9 and 0 <= shape < 4
    assert part_ok(k0)
    fresh_path()
    a, b = _mk(k0, x0), _mk(k1, x1)
    if shape == 0:
        da, db = {"a": a}, {"a": b}
    elif shape == 1:
        da, db = {"a": {"b": [a]}}, {"a": {"b": [b]}}
    elif shape == 2:
        da, db = {"a": [a, b]}, {"a": [b, a]}
    else:
        da, db = {"a": a}, {"a": a, "b": b}
    ia, ib = calc_id(da), calc_id(db)
    reached()
    if shape == 3:
        assert ia != ib
    else:
        assert (ia == ib) == refs.same_json(a, b)
    assert ia == expect_id(da)


def h_distinct__reach(k0: int, x0: int, k1: int, x1: int, shape: int):
    assert 0 <= k0 <= 4 and 0 <= k1 <= 4 and 0 <= x0 <= 9 and 0 <= x1 <= 9 and 0 <= shape < 4
    fresh_path()
    a, b = _mk(k0, x0), _mk(k1, x1)
    # twin: equal ids must be reachable (same kind, same value)
    assert not (k0 == k1 and shape == 0 and calc_id({"a": a}) == calc_id({"a": b}))


KEYS = ["a", "b", "ab", "", "é", "a b"]


def h_keys(i0: int, i1: int, i2: int, v: OB, order: int):
    """distinct keys from a small alphabet incl. empty / non-ASCII / prefix-related, every insertion order"""
    assert 0 <= i0 < i1 < i2 < len(KEYS) and 0 <= order < 6
    fresh_path()
    ks = [KEYS[i0], KEYS[i1], KEYS[i2]]
    d = {}
    for i in PERMS3[order]:
        d[ks[i]] = v if i == 0 else i
    ref = {ks[0]: v, ks[1]: 1, ks[2]: 2}
    got = calc_id(d)
    reached()
    assert got == expect_id(ref)


def _project():
    pr = P.Project.__new__(P.Project)
    pr._path = "/p"
    pr._workspace = "/p/workspace"
    pr._lock = threading.RLock()
    pr._sp_cache = {}
    pr._sp_cache_read = True
    pr._sp_cache_misses = 0
    pr._sp_cache_warned = False
    pr._sp_cache_miss_warning_threshold = 500
    pr._document = None
    pr._stores = None
    return pr


def h_alias(v0: OB, v1: OB, w: Leaf, mut: int):
    """open_job(sp) must not alias the caller's mapping: later mutation does not change id / statepoint"""
    assert okleaf(w) and 0 <= mut < 5 and part_ok(mut)
    fresh_path()
    sp = {"a": v0, "b": {"c": v1, "l": [v0, {"k": v1}]}}
    want = {"a": v0, "b": {"c": v1, "l": [v0, {"k": v1}]}}
    job = _project().open_job(sp)
    id0 = job.id
    if mut == 0:
        sp["a"] = w
    elif mut == 1:
        sp["b"]["c"] = w
    elif mut == 2:
        sp["b"]["l"][1]["k"] = w
    elif mut == 3:
        del sp["b"]["c"]
    else:
        sp["b"]["l"].append(w)
    reached()
    assert job.id == id0 == expect_id(want)
    got = job.statepoint()
    assert refs.same_json(got, want)
    assert refs.same_json(dict(job.cached_statepoint), want)
    assert calc_id(job.statepoint) == id0


def h_alias__reach(v0: OB, v1: OB, w: Leaf, mut: int):
    assert okleaf(w) and 0 <= mut < 5
    fresh_path()
    sp = {"a": v1}
    job = _project().open_job(sp)
    sp["a"] = w
    assert job.id == expect_id(sp)  # twin: must be violated when w != v1


def h_roundtrip(v0: OB, v1: OB, n: int):
    """id is stable under a JSON write/read round trip (tuple -> list, key order, spelling)"""
    assert (-9 <= n <= 99 if tier() == "quick" else -99 <= n <= 999) and (v1 is None or tier() != "quick")
    fresh_path()
    sp = {"b": (v0, [v1, {"z": 'é"\\', "f": 1.5}]), "a": {"y": n, "x": v0}}
    text = json.dumps(sp)
    back = json.loads(text)
    reached()
    assert calc_id(back) == calc_id(sp)


HARNESSES = [
    dict(name="h_leaves", timeout=(240, 600)),
    dict(name="h_leaves3", timeout=(1500, 1500), parts=(6, 6), tiers=("thorough",)),
    dict(name="h_canon_flat", twin="h_canon_flat__reach", timeout=(300, 900), parts=(2, 2)),
    dict(name="h_canon_nested", twin="h_canon_nested__reach", timeout=(300, 900)),
    dict(name="h_synced_spelling", timeout=(240, 900), unblock=True),
    dict(name="h_distinct", twin="h_distinct__reach", timeout=(300, 900), parts=(5, 5)),
    dict(name="h_keys", timeout=(300, 900)),
    dict(name="h_alias", twin="h_alias__reach", timeout=(300, 900), parts=(5, 5)),
    dict(name="h_roundtrip", timeout=(300, 3000)),
]

GOLDEN = [
    ({"constant": 42, "diff1": 0, "diff2": 1}, "c4af2b26f1fd256d70799ad3ce3bdad0"),
    ({"constant": 42, "diff1": 1, "diff2": 1}, "b96b21fada698f8934d58359c72755c0"),
    ({"constant": 42, "diff1": 2, "diff2": 2}, "e4289419d2b0e57e4852d44a09f167c0"),
    ({}, "99914b932bd37a50b983c5e7c90ae93b"),
    ({"a": 0}, "9bfd29df07674bc4aa960cf661b5acd2"),
]


def extra_checks(tier_):
    """Concrete re-validation that the real function is md5(canonical text): golden ids + the alphabet tables, real hashlib + C encoder."""
    import subprocess, sys
    code = r'''
import json, sys
sys.path.insert(0, %r)
from signac.job import calc_id
from vflib import refs
import importlib.util
bad = []
n = 0
G = %r
for sp, want in G:
    n += 1
    if calc_id(sp) != want or refs.canon_id(sp) != want: bad.append(("golden", sp, calc_id(sp), want))
S = %r; F = %r
vals = [None, True, False, 0, 1, -1, 1000, -1000] + S + F + [[], {}, [1, [2.5, "x"]], {"k": {"l": None}}]
for k in ["a", "", "é", "a b"]:
    for v in vals:
        for w in vals[:6]:
            sp = {k: v, "z": [w, {"q": v}]}
            n += 1
            if calc_id(sp) != refs.canon_id(sp): bad.append(("table", repr(sp), calc_id(sp), refs.canon_id(sp)))
            if len(calc_id(sp)) != 32 or calc_id(sp) != calc_id(sp).lower(): bad.append(("format", repr(sp)))
# flat state points in ONE process, values that are == but of different JSON type next to each other (a memo keyed on == would mix them up)
flat = [0, False, 0.0, 1, True, 1.0, -1, -1.0, 2, 2.0, "1", "", None, [1], [1.0], [True], (1, 2.0), [1, 2]]
for rnd in (0, 1):
    for k in ["a", "b"]:
        for v in (flat if rnd == 0 else flat[::-1]):
            for sp in ({k: v}, {k: v, "c": 0}, {k: v, "c": 0.0}):
                n += 1
                if calc_id(sp) != refs.canon_id(sp): bad.append(("flat", repr(sp), calc_id(sp), refs.canon_id(sp)))
print(json.dumps({"n": n, "bad": bad[:5]}))
''' % (os.path.dirname(os.path.dirname(os.path.abspath(__file__))), GOLDEN, SIGMA, FLOATS)
    env = dict(os.environ)
    env.pop("VF_REPLAY", None)
    p = subprocess.run([sys.executable, "-c", code], capture_output=True, text=True, env=env)
    out = {"evaluations": 0, "distinct": 0, "traces_validated": 0, "violations": [], "errors": [], "samples": [], "info": {}}
    try:
        r = json.loads(p.stdout.strip().splitlines()[-1])
    except Exception:
        out["errors"].append("golden validation crashed: " + (p.stderr or p.stdout)[-500:])
        return out
    out["traces_validated"] = r["n"]
    out["info"]["golden_and_table_ids_checked_with_real_md5"] = r["n"]
    for b in r["bad"]:
        out["violations"].append({"name": "golden_" + b[0], "msg": f"calc_id disagrees with md5(canonical JSON): {b}", "call": None})
    return out
