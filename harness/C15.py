"""C15 — sync options are honoured: dry-run writes nothing, deep, exclude, selection, parallel (E4: real file system)."""
import json, os
import signac
from vflib import synclib as SL
from vflib.hutil import pick, reached, part_ok, kf_filter, spy, tier, fresh_path, nt, ci, cb, discard
import signac.sync as SY
from signac.sync import sync_projects, sync_jobs

spy(SY, "sync_projects")
spy(SY, "sync_jobs")
CODE = ["signac.sync._FileModifyProxy (copy/copytree/remove/create_backup/create_doc_backup)", "signac.sync._DocProxy", "signac.sync.sync_projects (_clone_or_sync, selection, parallel, deep forwarding)", "signac.sync.sync_jobs / _sync_job_workspaces / _dircmp_deep",
        "signac.project.Project.sync / clone", "signac.job.Job.sync"]
BOUNDS = {"dry run": "every project pair of the C13 universe in which something would be copied, cloned or merged (files top level and nested, flat/nested/conflicting documents, project documents) x strategy {None, always} x doc_sync {default, ByKey(all), update} "
                     "x entry point {Project.sync, Job.sync, sync_projects, sync_jobs}: both trees byte-identical (files, directories, mtimes) and the same outcome class as a real run on an identical pair",
          "dry run, options": "source entry {regular file mode 0640, symlink to a file, dangling symlink} x destination entry {absent, different regular file, symlink elsewhere} x {top level, nested} x follow_symlinks x preserve_permissions x preserve_times "
                              "x strategy {None, always} x entry point: both trees identical including link targets, permission bits and mtimes (lstat)",
          "deep": "conflicting files of equal size and equal mtime at top level and nested; deep x strategy {None, always} x entry point", "exclude/selection": "exclude {f, g} (file names); selection {None, [id0], [job1], [], ()}",
          "parallel": "{False, 2, True} give identical destination trees"}
OUTSIDE = ["exclude patterns that name a DIRECTORY present on both sides (its files are still synchronised; the property speaks of files matching the pattern)", "thread interleavings inside the parallel pool (sampled by the OS: tree equality on the runs executed)", "preserve_owner / preserve_group (need a second uid); symlinked directories"]
STUBS = []
ASSUMPTIONS = ["tmpfs behaves like the user's file system"]


def _call(entry, src, dst, **kw):
    if entry == 0:
        return lambda: dst.sync(src, **kw)
    if entry == 1:
        sj, dj = src.open_job(SL.SPS[0]), dst.open_job(SL.SPS[0])
        kw.pop("check_schema", None)
        kw.pop("selection", None)
        kw.pop("parallel", None)
        return lambda: dj.sync(sj, **kw)
    if entry == 2:
        return lambda: sync_projects(src, dst, **kw)
    sj, dj = src.open_job(SL.SPS[0]), dst.open_job(SL.SPS[0])
    kw.pop("check_schema", None)
    kw.pop("selection", None)
    kw.pop("parallel", None)
    return lambda: sync_jobs(sj, dj, **kw)


def _dry_case(entry, pres, f, g, mrel, dstate, pstate, strat, didx, recursive):
    kw = dict(strategy=SL.strategy(strat), doc_sync=SL.doc_sync(didx), recursive=recursive, check_schema=False)
    with SL.Scratch() as sc1, SL.Scratch() as sc2:
        src, dst = SL.build(sc1.root, pres, f, g, mrel, dstate, pstate)
        src2, dst2 = SL.build(sc2.root, pres, f, g, mrel, dstate, pstate)
        bs, bd = SL.snap(src.path, True), SL.snap(dst.path, True)
        import io, contextlib
        buf = io.StringIO()
        with contextlib.redirect_stdout(buf):
            out_dry = SL.outcome(_call(entry, src, dst, dry_run=True, **kw))
        out_real = SL.outcome(_call(entry, src2, dst2, **dict(kw, strategy=SL.strategy(strat), doc_sync=SL.doc_sync(didx))))
        problems = []
        as_, ad = SL.snap(src.path, True), SL.snap(dst.path, True)
        if as_ != bs:
            problems.append(("dry run changed the source", [k for k in set(as_) | set(bs) if as_.get(k) != bs.get(k)][:3]))
        if ad != bd:
            problems.append(("dry run changed the destination", [k for k in set(ad) | set(bd) if ad.get(k) != bd.get(k)][:3]))
        if out_dry != out_real:
            problems.append(("dry run outcome differs from the real run", out_dry, out_real))
        would_change = SL.snap(dst2.path) != {k: (v[0] if isinstance(v, tuple) and not (len(v) == 2 and v[0] == "link") else v) for k, v in bd.items()}
        return problems, would_change, out_real


def dry_run_defects(entry, pres, f, g, dstate, pstate):
    """known-finding predicate placeholder"""
    return True


def h_dry(entry: int, pres: int, f: int, g: int, mrel: int, dstate: int, pstate: int, strat: int, didx: int, recursive: bool):
    assert 0 <= entry <= 3 and 0 <= pres < 16 and 0 <= f <= 5 and 0 <= g <= 5 and 0 <= mrel <= 2 and 0 <= dstate <= 6 and 0 <= pstate <= 2 and 0 <= strat <= 1 and 0 <= didx <= 2 and part_ok(f + 6 * (dstate % 3))
    assert pres & 1 and (entry in (0, 2) or pres & 3 == 3)
    assert (f in (4, 5) or g in (4, 5)) or mrel == 0
    assert not (mrel == 1 and (f == 5 or g == 5))
    assert tier() != "quick" or (pres in (1, 15) and g in (0, 4) and f in (1, 4) and dstate in (0, 5, 6) and mrel != 1 and (entry <= 1 or (strat == 1 and didx == 1 and pstate == 0)))
    assert tier() == "quick" or (pres in (1, 3, 15) and g in (0, 1, 4, 5) and mrel != 1 and (dstate in (0, 5, 6) or g in (0, 4)) and (pstate == 0 or g == 0))   # sized to ~10 min on 16 cores
    fresh_path()
    entry, pres, f, g, mrel, dstate, pstate, strat, didx, recursive = ci(entry, 0, 3), ci(pres, 0, 15), ci(f, 0, 5), ci(g, 0, 5), ci(mrel, 0, 2), ci(dstate, 0, 6), pick([0, 4, 5], pstate), ci(strat, 0, 1), pick([0, 1, 3], didx), cb(recursive)
    with nt():
        problems, would_change, out_real = _dry_case(entry, pres, f, g, mrel, dstate, pstate, strat, didx, recursive)
    reached()
    assert not problems


def h_dry__reach(entry: int, pres: int, f: int, g: int, mrel: int, dstate: int, pstate: int, strat: int, didx: int, recursive: bool):
    assert 0 <= entry <= 3 and 0 <= pres < 16 and 0 <= f <= 5 and 0 <= g <= 5 and 0 <= dstate <= 6
    assert pres & 1 and (entry in (0, 2) or pres & 3 == 3)
    entry, pres, f, dstate = ci(entry, 0, 3), ci(pres, 0, 15), ci(f, 0, 5), ci(dstate, 0, 6)
    with nt():
        problems, would_change, out_real = _dry_case(entry, pres, f, 0, 0, dstate, 0, 1, 1, True)
    assert not (would_change and out_real == "ok")  # twin: pairs where a real run returns and changes the destination are reachable


def _deep_case(entry, f, g, strat, deep, recursive):
    """f/g in state 5 with equal mtime: only a content comparison sees the difference"""
    with SL.Scratch() as sc:
        src, dst = SL.build(sc.root, 15, f, g, 1, 0, 0)
        bd, bs = SL.snap(dst.path), SL.snap(src.path)
        out = SL.outcome(_call(entry, src, dst, strategy=SL.strategy(strat), deep=deep, recursive=recursive, check_schema=False))
        ad = SL.snap(dst.path)
        jid = src.open_job(SL.SPS[0]).id
        problems = []
        if isinstance(out, tuple):
            problems.append(("unexpected exception", out))
        differing = [rel for rel, s_ in (("f", f), ("sub/g", g)) if s_ == 5 and (rel == "f" or recursive)]
        if deep and differing:
            if strat == 0 and out != "file":
                problems.append(("deep=True: differing files of equal size and mtime were not detected (no FileSyncConflict)", differing, out))
            if strat == 1:
                for rel in differing:
                    k = "workspace/%s/%s" % (jid, rel)
                    if ad.get(k) != bs.get(k):
                        problems.append(("deep=True with strategy always: differing file not overwritten", rel))
        if not deep and out == "file":
            problems.append(("shallow comparison reported a conflict for files of equal size and mtime",))
        return problems


def h_deep(entry: int, f: int, g: int, strat: int, deep: bool, recursive: bool):
    assert 0 <= entry <= 3 and f in (3, 5) and g in (0, 3, 5) and (f == 5 or g == 5) and 0 <= strat <= 1
    fresh_path()
    entry, f, g, strat, deep, recursive = ci(entry, 0, 3), pick([3, 5], (f - 3) // 2), pick([0, 3, 5], 0 if g == 0 else (1 if g == 3 else 2)), ci(strat, 0, 1), cb(deep), cb(recursive)
    with nt():
        problems = _deep_case(entry, f, g, strat, deep, recursive)
    reached()
    assert not problems


def _select_case(entry, excl, sel, f, g, recursive, parallel):
    exclude = [None, "f", "g", "sub"][excl]
    with SL.Scratch() as sc:
        src, dst = SL.build(sc.root, 0b0111, f, g, 2, 4, 0)     # job0 on both sides, job1 only in the source
        bd, bs = SL.snap(dst.path), SL.snap(src.path)
        j0, j1 = src.open_job(SL.SPS[0]), src.open_job(SL.SPS[1])
        selection = [None, [j0.id], [j1], [], ()][sel]
        kw = dict(strategy=SL.strategy(1), exclude=exclude, recursive=recursive, check_schema=False, doc_sync=SL.doc_sync(1))
        if entry in (0, 2):
            kw["selection"] = selection
            kw["parallel"] = [False, 2, True][parallel]
        out = SL.outcome(_call(entry, src, dst, **kw))
        ad = SL.snap(dst.path)
        problems = []
        if out != "ok":
            problems.append(("sync did not succeed", out))
        selected = {j0.id, j1.id} if (selection is None or entry in (1, 3)) else {str(x) for x in selection}
        if entry in (1, 3):
            selected = {j0.id}
        for k in set(ad) | set(bd):
            if not k.startswith("workspace/"):
                continue
            parts = k.split("/")
            jid = parts[1]
            rel = "/".join(parts[2:])
            changed = ad.get(k, "<absent>") != bd.get(k, "<absent>")
            if jid not in selected and changed:
                problems.append(("job outside the selection created or modified", k))
            if jid == j0.id and exclude and rel and changed:
                comps = rel.split("/")
                # the entry's own name matches, or it lies below a matching directory that the destination did not have before
                hit = bool(_re.match(exclude, comps[-1])) or any(_re.match(exclude, c) and ("workspace/%s/%s" % (jid, "/".join(comps[:i + 1]))) not in bd for i, c in enumerate(comps[:-1]))
                if hit:
                    problems.append(("excluded name created or modified", k))
        # selected jobs did arrive
        for jid in selected:
            if ("workspace/%s/signac_statepoint.json" % jid) not in ad:
                problems.append(("selected job missing", jid))
        return problems, ad


def h_select(entry: int, excl: int, sel: int, f: int, g: int, recursive: bool):
    assert 0 <= entry <= 3 and 0 <= excl <= 2 and 0 <= sel <= 4 and f in (1, 4) and g in (1, 4) and (entry in (0, 2) or sel == 0)
    fresh_path()
    entry, excl, sel, f, g, recursive = ci(entry, 0, 3), ci(excl, 0, 2), ci(sel, 0, 4), pick([1, 4], 0 if f == 1 else 1), pick([1, 4], 0 if g == 1 else 1), cb(recursive)
    with nt():
        problems, _ = _select_case(entry, excl, sel, f, g, recursive, 0)
    reached()
    assert not problems


def h_parallel(entry: int, excl: int, sel: int, f: int, g: int, par: int):
    assert entry in (0, 2) and 0 <= excl <= 1 and 0 <= sel <= 1 and f in (1, 4) and g in (1, 4) and 1 <= par <= 2
    fresh_path()
    entry, excl, sel, f, g, par = pick([0, 2], 0 if entry == 0 else 1), ci(excl, 0, 1), ci(sel, 0, 1), pick([1, 4], 0 if f == 1 else 1), pick([1, 4], 0 if g == 1 else 1), ci(par, 1, 2)
    with nt():
        p0, seq = _select_case(entry, excl, sel, f, g, True, 0)
        p1, parl = _select_case(entry, excl, sel, f, g, True, par)
        strip = lambda t: {k.split("/", 0)[-1]: v for k, v in t.items()}
        same = strip(seq) == strip(parl)
    reached()
    assert not p0 and not p1 and same


def _parallel_conflict_case(entry, kind, par, didx):
    """a conflict (file without strategy / document key without key strategy) in a job that exists on both sides: the parallel run reports
    exactly what the sequential run reports, and leaves the same tree"""
    outs, trees = [], []
    for parallel in (False, [2, True][par]):
        with SL.Scratch() as sc:
            # kind 0: conflicting file f, kind 1: conflicting document key, kind 2: both; job1 only in the source (cloned meanwhile)
            src, dst = SL.build(sc.root, 0b0111, 4 if kind in (0, 2) else 1, 0, 2, 5 if kind in (1, 2) else 4, 0)
            kw = dict(strategy=None, doc_sync=SL.doc_sync(didx), recursive=True, check_schema=False, parallel=parallel)
            outs.append(SL.outcome(_call(entry, src, dst, **kw)))
            trees.append({k: v for k, v in SL.snap(dst.path).items() if not k.startswith("workspace/%s" % src.open_job(SL.SPS[1]).id)})
    problems = []
    if outs[0] != outs[1]:
        problems.append(("parallel outcome differs from sequential", outs[1], outs[0]))
    if outs[0] == outs[1] and trees[0] != trees[1]:
        problems.append(("parallel run leaves a different tree for the conflicting job",))
    if outs[0] == "ok":
        problems.append(("the sequential run did not report the conflict: scenario broken", outs))
    return problems


def h_parallel_conflict(entry: int, kind: int, par: int, didx: int):
    assert entry in (0, 2) and 0 <= kind <= 2 and 0 <= par <= 1 and 0 <= didx <= 0
    fresh_path()
    entry, kind, par, didx = pick([0, 2], 0 if entry == 0 else 1), ci(kind, 0, 2), ci(par, 0, 1), ci(didx, 0, 0)
    with nt():
        problems = _parallel_conflict_case(entry, kind, par, didx)
    reached()
    assert not problems


def _snap_meta(root):
    """{relpath: ('dir', mode) | ('file', bytes, mode, mtime_ns) | ('link', target)} -- lstat based, so permission and time changes are visible"""
    out = {}
    for dp, dn, fn in os.walk(root):
        for n in dn + fn:
            p = os.path.join(dp, n)
            st = os.lstat(p)
            rel = os.path.relpath(p, root)
            if os.path.islink(p):
                out[rel] = ("link", os.readlink(p))
            elif os.path.isdir(p):
                out[rel] = ("dir", st.st_mode & 0o7777)
            else:
                with open(p, "rb") as fh:
                    out[rel] = ("file", fh.read(), st.st_mode & 0o7777, st.st_mtime_ns)
    return out


def _place_opts(src, dst, skind, dkind, nested):
    rel = "sub/e" if nested else "e"
    sj, dj = src.open_job(SL.SPS[0]), dst.open_job(SL.SPS[0])
    SL.put(sj.fn("tgt"), b"TARGET", SL.T_MID)
    SL.put(dj.fn("tgt"), b"TARGET", SL.T_MID)
    if nested:
        os.makedirs(sj.fn("sub"), exist_ok=True)
        os.makedirs(dj.fn("sub"), exist_ok=True)
    up = "../" if nested else ""
    if skind == 0:
        SL.put(sj.fn(rel), b"SRC-longer", SL.T_NEW)
        os.chmod(sj.fn(rel), 0o640)
    elif skind == 1:
        os.symlink(up + "tgt", sj.fn(rel))
    else:
        os.symlink(up + "nowhere", sj.fn(rel))
    if dkind == 1:
        SL.put(dj.fn(rel), b"DST", SL.T_OLD)
        os.chmod(dj.fn(rel), 0o600)
    elif dkind == 2:
        SL.put(dj.fn("other"), b"OTHER!!", SL.T_OLD)
        SL.put(sj.fn("other"), b"OTHER!!", SL.T_OLD)
        os.symlink(up + "other", dj.fn(rel))


def _dry_opts_case(entry, skind, dkind, nested, follow, perms, times, strat):
    """symbolic links and the preserve_* options: a dry run changes nothing (content, link targets, permission bits, mtimes) in either tree"""
    kw = dict(strategy=SL.strategy(strat), recursive=True, check_schema=False, follow_symlinks=follow, preserve_permissions=perms, preserve_times=times)
    problems = []
    with SL.Scratch() as sc1, SL.Scratch() as sc2:
        src, dst = SL.build(sc1.root, 3, 0, 0, 0, 0, 0)
        src2, dst2 = SL.build(sc2.root, 3, 0, 0, 0, 0, 0)
        _place_opts(src, dst, skind, dkind, nested)
        _place_opts(src2, dst2, skind, dkind, nested)
        bs, bd = _snap_meta(src.path), _snap_meta(dst.path)
        import io, contextlib
        with contextlib.redirect_stdout(io.StringIO()):
            out_dry = SL.outcome(_call(entry, src, dst, dry_run=True, **kw))
        bd2 = _snap_meta(dst2.path)
        out_real = SL.outcome(_call(entry, src2, dst2, **dict(kw, strategy=SL.strategy(strat))))
        as_, ad = _snap_meta(src.path), _snap_meta(dst.path)
        if as_ != bs:
            problems.append(("dry run changed the source", sorted(k for k in set(as_) | set(bs) if as_.get(k) != bs.get(k))[:3]))
        if ad != bd:
            problems.append(("dry run changed the destination", sorted(k for k in set(ad) | set(bd) if ad.get(k) != bd.get(k))[:3]))
        if out_real in ("ok", "file") and out_dry != out_real:
            problems.append(("dry run outcome differs from the real run", out_dry, out_real))
        changed = _snap_meta(dst2.path) != bd2
    return problems, changed, out_real


def h_dry_opts(entry: int, skind: int, dkind: int, nested: bool, follow: bool, perms: bool, times: bool, strat: int):
    assert 0 <= entry <= 3 and 0 <= skind <= 2 and 0 <= dkind <= 2 and 0 <= strat <= 1 and part_ok(entry)
    fresh_path()
    entry, skind, dkind, nested, follow, perms, times, strat = ci(entry, 0, 3), ci(skind, 0, 2), ci(dkind, 0, 2), cb(nested), cb(follow), cb(perms), cb(times), ci(strat, 0, 1)
    with nt():
        problems, changed, out_real = _dry_opts_case(entry, skind, dkind, nested, follow, perms, times, strat)
    reached()
    assert not problems


def h_dry_opts__reach(entry: int, skind: int, dkind: int, nested: bool, follow: bool, perms: bool, times: bool, strat: int):
    assert 0 <= entry <= 3 and 0 <= skind <= 2 and 0 <= dkind <= 2 and 0 <= strat <= 1
    entry, skind, dkind, follow, strat = ci(entry, 0, 3), ci(skind, 0, 2), ci(dkind, 0, 2), cb(follow), ci(strat, 0, 1)
    with nt():
        problems, changed, out_real = _dry_opts_case(entry, skind, dkind, False, follow, False, False, strat)
    assert not (changed and out_real == "ok" and skind == 1 and not follow and dkind == 1)  # twin: a real run that REPLACES a destination file by a link is reachable


# ---------------------------------------------------------------------------------------- exclude inside whole-tree copies
import re as _re
XPATS = ["secret", r".*\.log$", "sub", r".*\.json$", "signac_"]    # the last two also match signac's own file names


def _exclude_tree_case(entry, pat, newjob, recursive, aslist):
    """files whose NAME matches the exclude pattern are never created - also not inside a source-only sub-directory that is copied as a
    tree, and not inside a job that is new to the destination (cloned as a whole)"""
    pattern = XPATS[pat]
    problems = []
    with SL.Scratch() as sc:
        src, dst = SL.build(sc.root, 1 if newjob else 3, 0, 0, 0, 0, 0)
        sj = src.open_job(SL.SPS[0])
        for rel in ("keep.txt", "secret.log", "sub/secret.log", "sub/keep2.txt", "sub/deeper/secret.log", "sub/deeper/keep3.txt",
                    "embedded/signac_statepoint.json", "embedded/signac_job_document.json"):      # a project embedded in the job: data files named like signac's own
            SL.put(sj.fn(rel), b"DATA:" + rel.encode(), SL.T_MID)
        sj.document["k"] = 1
        src, dst = signac.get_project(src.path, search=False), signac.get_project(dst.path, search=False)
        bs, bd = SL.snap(src.path), SL.snap(dst.path)
        kw = dict(exclude=[pattern] if aslist else pattern, recursive=recursive, check_schema=False)
        if entry == 0:
            call = lambda: dst.sync(src, **kw)
        else:
            kw.pop("check_schema")
            call = lambda: dst.open_job(SL.SPS[0]).sync(src.open_job(SL.SPS[0]), **kw)
        out = SL.outcome(call)
        if out != "ok":
            return [("sync did not return", out)]
        ad = SL.snap(dst.path)
        if SL.snap(src.path) != bs:
            problems.append(("source changed",))
        jid = sj.id
        pre = "workspace/%s/" % jid
        for k in ad:
            if k in bd or not k.startswith(pre):
                continue
            rel = k[len(pre):]
            if rel in ("signac_statepoint.json", "signac_job_document.json"):
                continue      # signac's own two files at the root of a job are not data files: the job must arrive with its state point, documents follow doc_sync
            if any(_re.match(pattern, part) for part in rel.split("/")):
                problems.append(("an entry matching the exclude pattern was created", rel, pattern))
        # and the files that do NOT match (and do not lie below an excluded directory) arrive
        tree = newjob and entry == 0
        for rel in ("keep.txt", "sub/keep2.txt", "sub/deeper/keep3.txt"):
            if any(_re.match(pattern, part) for part in rel.split("/")):
                continue
            if "/" in rel and not (recursive or tree):
                continue
            if ad.get(pre + rel) != bs.get(pre + rel):
                problems.append(("non-excluded source file not copied", rel))
        if ad.get(pre + "signac_statepoint.json") is None:
            problems.append(("state point file missing in the destination",))
        if json.loads(ad.get(pre + "signac_job_document.json") or b"{}") != {"k": 1}:
            problems.append(("document not synchronised", ad.get(pre + "signac_job_document.json")))
    return problems


def h_exclude_tree(entry: int, pat: int, newjob: bool, recursive: bool, aslist: bool):
    assert 0 <= entry <= 1 and 0 <= pat < len(XPATS)
    fresh_path()
    entry, pat, newjob, recursive, aslist = ci(entry, 0, 1), ci(pat, 0, len(XPATS) - 1), cb(newjob), cb(recursive), cb(aslist)
    with nt():
        problems = _exclude_tree_case(entry, pat, newjob, recursive, aslist)
    reached()
    assert not problems


def _dry_uninit_case(entry, with_doc, recursive, sub, half=False):
    """job-level dry run into a destination job that is not initialised yet: completes like the real run and creates nothing"""
    problems = []
    with SL.Scratch() as sc1, SL.Scratch() as sc2:
        pairs = []
        for sc in (sc1, sc2):
            src, dst = SL.build(sc.root, 1, 1, 1 if sub else 0, 0, 1 if with_doc else 0, 0)
            if half:
                # the destination directory exists (copied by hand / interrupted transfer) but has no state point file
                os.makedirs(os.path.join(dst.workspace, src.open_job(SL.SPS[0]).id))
                src, dst = signac.get_project(src.path, search=False), signac.get_project(dst.path, search=False)
            pairs.append((src, dst))
        (src, dst), (src2, dst2) = pairs
        bs, bd = SL.snap(src.path, True), SL.snap(dst.path, True)
        kw = dict(recursive=recursive)
        import io, contextlib
        with contextlib.redirect_stdout(io.StringIO()):
            e_ = [1, 3, 0, 2][entry]
            if e_ in (0, 2):
                kw["check_schema"] = False
            out_dry = SL.outcome(_call(e_, src, dst, dry_run=True, **dict(kw)))
        out_real = SL.outcome(_call(e_, src2, dst2, **dict(kw)))
        if out_dry != out_real and not (half and isinstance(out_real, tuple)):
            problems.append(("dry run outcome differs from the real run", out_dry, out_real))
        if SL.snap(src.path, True) != bs:
            problems.append(("dry run changed the source",))
        ad = SL.snap(dst.path, True)
        if ad != bd:
            problems.append(("dry run changed the destination", sorted(k for k in set(ad) | set(bd) if ad.get(k) != bd.get(k))[:3]))
    return problems


def h_dry_uninit(entry: int, with_doc: bool, recursive: bool, sub: bool, half: bool):
    assert 0 <= entry <= 3
    fresh_path()
    entry, with_doc, recursive, sub, half = ci(entry, 0, 3), cb(with_doc), cb(recursive), cb(sub), cb(half)
    if entry >= 2 and not half:
        discard("project-level entry points clone a missing job (covered by h_dry)")
    with nt():
        problems = _dry_uninit_case(entry, with_doc, recursive, sub, half)
    reached()
    assert not problems


def _deep_repeat_case(entry, strat, nested):
    """two deep syncs in ONE process: identical files first; then the source file is rewritten with different content of the same size and
    the same mtime. deep=True compares by content regardless of size and timestamps, so the second sync must see the difference."""
    problems = []
    rel = "sub/g" if nested else "f"
    with SL.Scratch() as sc:
        src, dst = SL.build(sc.root, 15, 0 if nested else 3, 3 if nested else 0, 1, 0, 0)
        kw = dict(deep=True, recursive=True, check_schema=False)
        out1 = SL.outcome(_call(entry, src, dst, strategy=SL.strategy(strat), **kw))
        if out1 != "ok":
            return [("first sync of identical files did not return", out1)]
        sj, dj = src.open_job(SL.SPS[0]), dst.open_job(SL.SPS[0])
        st = os.stat(sj.fn(rel))
        old = open(sj.fn(rel), "rb").read()
        new = bytes((b ^ 1) for b in old)
        with open(sj.fn(rel), "wb") as f:
            f.write(new)
        os.utime(sj.fn(rel), ns=(st.st_atime_ns, st.st_mtime_ns))
        before_dst = open(dj.fn(rel), "rb").read()
        out2 = SL.outcome(_call(entry, src, dst, strategy=SL.strategy(strat), **kw))
        after_dst = open(dj.fn(rel), "rb").read()
        if strat == 0:
            if out2 != "file":
                problems.append(("deep=True: a content difference (same size, same mtime) was not reported after an earlier comparison in the same process", out2))
            if after_dst != before_dst:
                problems.append(("file touched although a conflict was due",))
        else:
            if out2 != "ok" or after_dst != new:
                problems.append(("deep=True with strategy always: differing file not overwritten on the second sync", out2))
    return problems


def h_deep_repeat(entry: int, strat: int, nested: bool):
    assert 0 <= entry <= 3 and 0 <= strat <= 1
    fresh_path()
    entry, strat, nested = ci(entry, 0, 3), ci(strat, 0, 1), cb(nested)
    with nt():
        problems = _deep_repeat_case(entry, strat, nested)
    reached()
    assert not problems


def _docfn(kind):
    if kind == 0:
        def replace(src, dst):
            dst.clear()
            dst.update(src)
        return replace
    if kind == 1:
        def merge(src, dst):
            for k in src.keys():
                dst[k] = src[k]
        return merge

    if kind == 3:
        def extend_lists(src, dst):
            for k in src.keys():
                if k in dst and isinstance(src[k], (list, tuple)) or (k in dst and hasattr(src[k], "append")):
                    for x in src[k]:
                        if x not in dst[k]:
                            dst[k].append(x)          # in-place mutation of a nested list handed out by the proxy
                elif k not in dst:
                    dst[k] = src[k]
        return extend_lists

    def nested(src, dst):
        for k in src.keys():
            if k in dst and hasattr(src[k], "keys") and not isinstance(dst[k], (int, str, float, list)):
                for kk in src[k].keys():
                    dst[k][kk] = src[k][kk]
            else:
                dst[k] = src[k]
    return nested


def _dry_docfn_case(entry, kind, dstate, pstate):
    """user-written document strategies (replace / merge / nested merge through the proxy they are handed) under dry_run: nothing changes"""
    problems = []
    with SL.Scratch() as sc:
        src, dst = SL.build(sc.root, 15, 0, 0, 0, dstate, pstate)
        if kind == 3:
            src.open_job(SL.SPS[0]).document["l"] = [1, 2, {"m": [3]}]
            dst.open_job(SL.SPS[0]).document["l"] = [1]
            src.document["pl"] = [1, 2]
            dst.document["pl"] = [1]
            src, dst = signac.get_project(src.path, search=False), signac.get_project(dst.path, search=False)
        bs, bd = SL.snap(src.path, True), SL.snap(dst.path, True)
        import io, contextlib
        with contextlib.redirect_stdout(io.StringIO()):
            out = SL.outcome(_call(entry, src, dst, dry_run=True, doc_sync=_docfn(kind), check_schema=False, strategy=SL.strategy(1)))
        if out != "ok":
            problems.append(("dry run with a user-written document strategy did not return", out))
        if SL.snap(src.path, True) != bs:
            problems.append(("dry run changed the source",))
        ad = SL.snap(dst.path, True)
        if ad != bd:
            problems.append(("dry run changed the destination", sorted(k for k in set(ad) | set(bd) if ad.get(k) != bd.get(k))[:3]))
    return problems


def h_dry_docfn(entry: int, kind: int, dstate: int, pstate: int):
    assert 0 <= entry <= 3 and 0 <= kind <= 3 and 1 <= dstate <= 6 and 0 <= pstate <= 2
    fresh_path()
    entry, kind, dstate, pstate = ci(entry, 0, 3), ci(kind, 0, 3), ci(dstate, 1, 6), pick([0, 4, 5], pstate)
    with nt():
        problems = _dry_docfn_case(entry, kind, dstate, pstate)
    reached()
    assert not problems


HARNESSES = [
    dict(name="h_dry", twin="h_dry__reach", timeout=(900, 3000), parts=(18, 18), unblock=True),
    dict(name="h_dry_opts", twin="h_dry_opts__reach", timeout=(900, 1800), parts=(4, 4), unblock=True),
    dict(name="h_deep", timeout=(400, 900), unblock=True),
    dict(name="h_select", timeout=(600, 1500), unblock=True),
    dict(name="h_parallel", timeout=(400, 900), unblock=True),
    dict(name="h_parallel_conflict", timeout=(300, 600), unblock=True),
    dict(name="h_exclude_tree", timeout=(300, 600), unblock=True),
    dict(name="h_dry_uninit", timeout=(300, 600), unblock=True),
    dict(name="h_deep_repeat", timeout=(300, 600), unblock=True),
    dict(name="h_dry_docfn", timeout=(300, 600), unblock=True),
]
