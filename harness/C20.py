"""C20 — incompatible schema versions are refused, and migration preserves every job.

E1: the version gate with an UNBOUNDED symbolic int (pure LIA) and its decimal rendering.
E4: legacy / foreign-version layouts on the real file system x entry point; migration of generated v0/v1 projects."""
import gzip, json, os, shutil, io, contextlib, types
import signac
from signac import Project
from signac.errors import IncompatibleSchemaVersion
from signac.job import calc_id
from signac.version import SCHEMA_VERSION
from vflib import synclib as SL
from vflib.hutil import pick, reached, part_ok, kf_filter, spy, tier, fresh_path, nt, ci, cb, discard
import signac.project as P
import signac._config as CFG
import signac.migration as MIG

spy(P.Project, "_check_schema_compatibility", "signac.project.Project._check_schema_compatibility")
spy(CFG, "_raise_if_older_schema")
spy(MIG, "apply_migrations")
CODE = ["signac.project.Project._check_schema_compatibility / __init__ / get_project / init_project", "signac._config._raise_if_older_schema / _locate_config_dir / _load_config", "signac.migration.apply_migrations / _collect_migrations / _get_config_schema_version",
        "signac.migration.v0_to_v1 / v1_to_v2"]
BOUNDS = {"gate": "direct z3 query generated from the AST of Project._check_schema_compatibility: ALL integers; executed under CrossHair for v in [-8, 16] and as a decimal string for v in [-20, 40] (quick) / |v| <= 1000 (thorough)", "refuse": "v2 layout with schema_version in {0,1,3,10} and legacy signac.rc layout with version {absent,0,1,2,3,10} x {Project(), get_project, init_project}, "
          "with a workspace holding a job, a project document and a cache file", "migrate": "project name {None, proj, 'my proj-1.0!', 'sims, run #2' (quoted in signac.rc)} x workspace_dir {default, ws, a/ws, 'w,s' (quoted), custom + colliding 'workspace'} x v1 cache file x shell history x 0-2 jobs with document/file x start version {absent, 0, 1}"}
OUTSIDE = ["non-ASCII project names", "concurrent migrations (the file lock is not modelled)", "crashes in the middle of a migration"]
STUBS = ["gate harness: a Project object carrying only a config mapping"]
ASSUMPTIONS = ["tmpfs behaves like the user's file system"]


def h_gate(v: int):
    """raises IncompatibleSchemaVersion  <=>  v != SCHEMA_VERSION, for every integer v; never mutates the configuration"""
    assert -8 <= v <= 16   # message formatting realises the symbolic value, so the executed claim is bounded; the unbounded claim is the direct z3 query in extra_checks
    pr = P.Project.__new__(P.Project)
    pr._config = {"schema_version": v}
    try:
        pr._check_schema_compatibility()
        raised = False
    except IncompatibleSchemaVersion:
        raised = True
    reached()
    assert raised == (v != int(SCHEMA_VERSION))
    assert pr._config == {"schema_version": v}


def h_gate__reach(v: int):
    assert -8 <= v <= 16
    pr = P.Project.__new__(P.Project)
    pr._config = {"schema_version": v}
    try:
        pr._check_schema_compatibility()
        raised = False
    except IncompatibleSchemaVersion:
        raised = True
    assert raised  # twin: the accepting path is reachable


def h_gate_str(v: int):
    """the value as configobj delivers it: a decimal string"""
    assert (-20 <= v <= 40) if tier() == "quick" else (-1000 <= v <= 1000)
    pr = P.Project.__new__(P.Project)
    pr._config = {"schema_version": str(v)}
    try:
        pr._check_schema_compatibility()
        raised = False
    except IncompatibleSchemaVersion:
        raised = True
    reached()
    assert raised == (v != int(SCHEMA_VERSION))


# ------------------------------------------------------------------------------------------------ E4
def _mk_v1(root, name, wsdir, version, cache, history, njobs, collide, mkws=True):
    os.makedirs(root)
    lines = []
    def rc(v):   # configobj quoting: values with a comma or a '#' must be written in quotes (as signac 1.x / configobj wrote them)
        return '"%s"' % v if ("," in v or "#" in v) else v
    if name is not None:
        lines.append(f"project = {rc(name)}")
    else:
        lines.append("project = None")
    if wsdir != "workspace":
        lines.append(f"workspace_dir = {rc(wsdir)}")
    if version is not None:
        lines.append(f"schema_version = {version}")
    with open(os.path.join(root, "signac.rc"), "w") as f:
        f.write("\n".join(lines) + "\n")
    os.environ["VF_C20_WS"] = "envdir"      # signac 1.x expanded environment variables in workspace_dir
    os.environ["VF_C20_ABS"] = os.path.join(os.path.dirname(root), "abs_scratch")     # ... also to absolute paths (the join then drops the project root)
    ws = os.path.join(root, os.path.expandvars(wsdir))
    if mkws or njobs:
        os.makedirs(ws)      # signac 1.x created the workspace directory with the first job: a project without jobs may not have one
    content = {}
    for i in range(njobs):
        sp = {"a": i, "n": {"b": [i, "x"]}}
        jid = calc_id(sp)
        d = os.path.join(ws, jid)
        os.makedirs(os.path.join(d, "sub"))
        with open(os.path.join(d, "signac_statepoint.json"), "w") as f:
            json.dump(sp, f)
        with open(os.path.join(d, "signac_job_document.json"), "w") as f:
            json.dump({"doc": i}, f)
        with open(os.path.join(d, "sub", "data.bin"), "wb") as f:
            f.write(b"payload%d" % i)
        content[jid] = (sp, {"doc": i}, {"sub/data.bin": b"payload%d" % i})
    if cache:
        with gzip.open(os.path.join(root, ".signac_sp_cache.json.gz"), "wb") as f:
            f.write(json.dumps({jid: c[0] for jid, c in content.items()}).encode())
    if history:
        with open(os.path.join(root, ".signac_shell_history"), "w") as f:
            f.write("print(project)")
    with open(os.path.join(root, "signac_project_document.json"), "w") as f:
        json.dump({"pd": 1}, f)
    if collide:
        os.makedirs(os.path.join(root, "workspace", "keep"))
    return content


def _observe_project(root):
    pr = signac.get_project(root, search=False)
    out = {}
    for job in pr:
        files = {}
        for dp, dn, fn in os.walk(job.path):
            for f_ in fn:
                rel = os.path.relpath(os.path.join(dp, f_), job.path)
                if rel not in ("signac_statepoint.json", "signac_job_document.json"):
                    with open(os.path.join(dp, f_), "rb") as fh:
                        files[rel] = fh.read()
        out[job.id] = (job.statepoint(), dict(job.document()), files)
    pr.check()
    return out, pr


NAMES = [None, "proj", "my proj-1.0!", "sims, run #2", "50%_dense", "x$y"]
WSDIRS = ["workspace", "ws", "a/ws", "w,s", ".workspace", "../workspace", "$VF_C20_WS/ws", "$VF_C20_ABS/ws"]   # the last two: names that differ from the default only by leading dots / a parent step


def _migrate_case(name, wsd, version, cache, history, njobs, collide, mkws=True):
    from signac.migration import apply_migrations
    problems = []
    with SL.Scratch() as sc:
        root = os.path.join(sc.root, "proj")
        wsdir = WSDIRS[wsd]
        collide = collide and wsdir != "workspace"
        content = _mk_v1(root, NAMES[name], wsdir, version, cache, history, njobs, collide, mkws)
        err = io.StringIO()
        # before migration every entry point refuses the project and changes nothing
        before = SL.snap(root)
        for entry in (lambda: Project(root), lambda: signac.get_project(root), lambda: signac.init_project(root)):
            try:
                entry()
                problems.append(("legacy project was opened without migration",))
            except IncompatibleSchemaVersion:
                pass
            except Exception as e:  # noqa
                problems.append(("legacy project: unexpected exception", type(e).__name__, str(e)[:80]))
        if SL.snap(root) != before:
            problems.append(("refusing the legacy project changed the tree",))
        with contextlib.redirect_stderr(err):
            try:
                apply_migrations(root)
                out = "ok"
            except RuntimeError:
                out = "RuntimeError"
            except Exception as e:  # noqa
                out = ("error", type(e).__name__, str(e)[:100])
        if collide:
            if out != "RuntimeError":
                problems.append(("colliding workspace directory: migration did not refuse", out))
            # jobs intact in the old workspace, and after removing the obstacle (as the message instructs) the migration succeeds
            for jid, (sp, doc, files) in content.items():
                p = os.path.join(root, os.path.expandvars(wsdir), jid, "sub", "data.bin")
                if not os.path.isfile(p):
                    problems.append(("job data lost by the refused migration", jid))
            shutil.rmtree(os.path.join(root, "workspace"))
            with contextlib.redirect_stderr(err):
                try:
                    apply_migrations(root)
                    out = "ok"
                except Exception as e:  # noqa
                    out = ("error-after-retry", type(e).__name__, str(e)[:100])
        if out != "ok":
            problems.append(("migration failed", out))
            return problems
        try:
            got, pr = _observe_project(root)
        except Exception as e:  # noqa
            problems.append(("migrated project does not open / check", type(e).__name__, str(e)[:100]))
            return problems
        want = {jid: (sp, doc, files) for jid, (sp, doc, files) in content.items()}
        if got != want:
            problems.append(("jobs after migration differ", sorted(got), sorted(want)))
        pd = dict(pr.document())
        if pd.get("pd") != 1:
            problems.append(("project document lost", pd))
        if NAMES[name] is not None and pd.get("signac_project_name") != NAMES[name]:
            problems.append(("project name not carried into the project document", pd))
        if cache and not os.path.isfile(os.path.join(root, ".signac", "statepoint_cache.json.gz")):
            problems.append(("cache file not moved",))
        if history and not os.path.isfile(os.path.join(root, ".signac", "shell_history")):
            problems.append(("history file not moved",))
        for stale in ("signac.rc", ".signac_sp_cache.json.gz", ".signac_shell_history"):
            if os.path.exists(os.path.join(root, stale)):
                problems.append(("legacy file left behind", stale))
        # migrating an up-to-date project is a no-op
        snap1 = SL.snap(root)
        with contextlib.redirect_stderr(err):
            try:
                apply_migrations(root)
            except Exception as e:  # noqa
                problems.append(("second apply_migrations raised", type(e).__name__))
        if SL.snap(root) != snap1:
            problems.append(("migrating an up-to-date project changed it",))
    return problems


def h_migrate(name: int, wsd: int, ver: int, cache: bool, history: bool, njobs: int, collide: bool, mkws: bool):
    assert 0 <= name <= 5 and 0 <= wsd <= 7 and 0 <= ver <= 2 and 0 <= njobs <= 2 and part_ok(wsd * 3 + ver)
    assert (wsd != 0) or not collide
    assert mkws or njobs == 0
    assert wsd <= 3 or (name <= 1 and not cache and not history)
    assert name <= 3 or (wsd <= 1 and not cache and not history and not collide)
    fresh_path()
    name, wsd, ver, cache, history, njobs, collide, mkws = ci(name, 0, 5), ci(wsd, 0, 7), pick([None, 0, 1], ver), cb(cache), cb(history), ci(njobs, 0, 2), cb(collide), cb(mkws)
    with nt():
        problems = _migrate_case(name, wsd, ver, cache, history, njobs, collide, mkws)
    reached()
    assert not problems


def _refuse_case(layout, ver, entry, probe=False):
    """foreign schema versions in the CURRENT layout (.signac/config) and in the legacy layout (signac.rc); probe: the same process has
    looked at the (then empty) directory before the project appeared there (restored from a backup, unpacked from an archive)"""
    problems = []
    with SL.Scratch() as sc:
        root = os.path.join(sc.root, "proj")
        if probe:
            os.makedirs(os.path.join(root, "workspace"))
            for fn in (lambda: signac.get_project(root), lambda: signac.get_project(os.path.join(root, "workspace")), lambda: Project(root)):
                try:
                    fn()
                    problems.append(("an empty directory was opened as a project",))
                except LookupError:
                    pass
            shutil.rmtree(root)
        if layout == 0:
            pr = signac.init_project(root)
            j = pr.open_job({"a": 1}).init()
            j.document["d"] = 1
            pr.document["pd"] = 1
            pr.update_cache()
            cfg = os.path.join(root, ".signac", "config")
            with open(cfg, "w") as f:
                # ver None: a configuration that declares NO schema version (only some other setting)
                f.write(f"schema_version = {ver}\n" if ver is not None else "statepoint_cache_miss_warning_threshold = 100\n")
        else:
            _mk_v1(root, "proj", "workspace", ver, True, False, 1, False)
        sub = os.path.join(root, "workspace")
        before = SL.snap(root)
        target = root if entry != 3 else sub
        calls = [lambda: Project(root), lambda: signac.get_project(root), lambda: signac.init_project(root), lambda: signac.get_project(sub)]
        try:
            calls[entry]()
            problems.append(("opened a project with schema version", ver, "layout", layout))
        except IncompatibleSchemaVersion:
            pass
        except Exception as e:  # noqa
            # a LEGACY layout that claims the CURRENT version is contradictory: any refusal is accepted as long as nothing is opened or modified
            if not (layout == 1 and ver == 2):
                problems.append(("expected IncompatibleSchemaVersion, got", type(e).__name__, str(e)[:80]))
        if SL.snap(root) != before:
            a = SL.snap(root)
            problems.append(("refused project was modified", sorted(set(a) ^ set(before))[:4]))
    return problems


def h_refuse(layout: int, ver: int, entry: int, probe: bool):
    assert 0 <= layout <= 1 and 0 <= ver <= 5 and 0 <= entry <= 3 and not (layout == 0 and ver == 5)
    fresh_path()
    layout, entry, probe = ci(layout, 0, 1), ci(entry, 0, 3), cb(probe)
    v = pick([0, 1, 3, 10, None, 2], ver)
    with nt():
        problems = _refuse_case(layout, v, entry, probe)
    reached()
    assert not problems


HARNESSES = [
    dict(name="h_gate", twin="h_gate__reach", timeout=(120, 300)),
    dict(name="h_gate_str", timeout=(300, 600)),
    dict(name="h_refuse", timeout=(300, 600), unblock=True),
    dict(name="h_migrate", timeout=(600, 1500), parts=(9, 9), unblock=True),
]


def extra_checks(tier_):
    """E3-style: translate the comparison chain of the live Project._check_schema_compatibility into z3 (Python int -> z3 Int) and decide
    'raises  <=>  v != SCHEMA_VERSION' for ALL integers. Any unexpected AST shape is reported as a harness error (never as success)."""
    import ast, inspect, textwrap, time, z3
    out = {"evaluations": 0, "distinct": 0, "queries": 0, "solver_s": 0.0, "violations": [], "errors": [], "samples": [], "info": {}}
    try:
        fn = getattr(P.Project._check_schema_compatibility, "__wrapped__", P.Project._check_schema_compatibility)
        tree = ast.parse(textwrap.dedent(inspect.getsource(fn))).body[0]
    except Exception as e:  # noqa
        out["errors"].append(f"cannot read the source of _check_schema_compatibility: {e}")
        return out
    v, S = z3.Int("v"), z3.IntVal(int(SCHEMA_VERSION))
    names = {}
    ifnode = None
    for st in tree.body:
        if isinstance(st, ast.Assign) and len(st.targets) == 1 and isinstance(st.targets[0], ast.Name):
            src = ast.unparse(st.value)
            if src == "SCHEMA_VERSION" or src == "int(SCHEMA_VERSION)":
                names[st.targets[0].id] = S
            elif "schema_version" in src and "config" in src and src.startswith("int("):
                names[st.targets[0].id] = v
        elif isinstance(st, ast.If):
            ifnode = st
    if ifnode is None or len(names) < 2:
        out["errors"].append(f"unexpected shape of _check_schema_compatibility (names={list(names)}); z3 gate query not generated")
        return out
    OPS = {ast.Gt: lambda a, b: a > b, ast.Lt: lambda a, b: a < b, ast.GtE: lambda a, b: a >= b, ast.LtE: lambda a, b: a <= b, ast.Eq: lambda a, b: a == b, ast.NotEq: lambda a, b: a != b}

    def tr(e):
        if isinstance(e, ast.Compare) and len(e.ops) == 1 and isinstance(e.left, ast.Name) and isinstance(e.comparators[0], ast.Name) and type(e.ops[0]) in OPS:
            return OPS[type(e.ops[0])](names[e.left.id], names[e.comparators[0].id])
        raise NotImplementedError(ast.unparse(e))

    def raises(body):
        return any(isinstance(x, ast.Raise) for x in body)
    try:
        cond_raise, guard = z3.BoolVal(False), z3.BoolVal(True)
        node = ifnode
        while True:
            c = tr(node.test)
            if raises(node.body):
                cond_raise = z3.Or(cond_raise, z3.And(guard, c))
            guard = z3.And(guard, z3.Not(c))
            if len(node.orelse) == 1 and isinstance(node.orelse[0], ast.If):
                node = node.orelse[0]
                continue
            if raises(node.orelse):
                cond_raise = z3.Or(cond_raise, guard)
            break
    except (NotImplementedError, KeyError) as e:
        out["errors"].append(f"comparison chain not translatable: {e}")
        return out
    sol = z3.Solver()
    sol.add(cond_raise != (v != S))
    t0 = time.time()
    r = str(sol.check())
    out["queries"] = out["evaluations"] = out["distinct"] = 2
    sol2 = z3.Solver()
    sol2.add(z3.Not(cond_raise))
    r2 = str(sol2.check())      # vacuity: the accepting case exists
    out["solver_s"] = time.time() - t0
    out["samples"].append({"query": "exists v: raises(v) != (v != SCHEMA_VERSION)", "smt": sol.sexpr()[:400], "result": r, "vacuity (some v accepted)": r2})
    if r == "sat":
        w = sol.model()[v].as_long()
        pr = P.Project.__new__(P.Project)
        pr._config = {"schema_version": w}
        try:
            pr._check_schema_compatibility()
            raised = False
        except IncompatibleSchemaVersion:
            raised = True
        if raised != (w != int(SCHEMA_VERSION)):
            out["violations"].append({"name": "gate_z3", "msg": f"schema version {w}: raised={raised} but supported version is {SCHEMA_VERSION}", "call": f"h_gate({w})", "witness": w})
        else:
            out["errors"].append(f"z3 witness {w} does not reproduce on the real function")
    elif r != "unsat" or r2 != "sat":
        out["errors"].append(f"gate query inconclusive: {r} / vacuity {r2}")
    return out
