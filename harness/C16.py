"""C16 — export then import reproduces the project.

Kernels (E1, CrossHair): leaf/node check, export path map (uniqueness / prefix-freeness before any copy), zip import attribution.
E3 (direct z3 regex queries generated from the live objects): schema-string regex == described layout, typed value languages.
E4 (real FS): full round trip (in harness C16 E4 section).
"""
import json, os, posixpath, types
from vflib.hutil import pick, reached, part_ok, kf_filter, spy, tier, fresh_path, nt, ci, cb

import signac.import_export as IE
import signac.project as P
from signac.job import calc_id

for _a in ("_check_directory_structure_validity", "_make_path_function", "_make_schema_based_path_function", "_check_path_function_unique", "_export_jobs",
           "_analyze_zipfile_for_import", "_convert_schema_path_to_regex"):
    spy(IE, _a)

CODE = ["signac.import_export._check_directory_structure_validity", "signac.import_export._export_jobs/_make_path_function/_make_schema_based_path_function/_check_path_function_unique",
        "signac.import_export._analyze_zipfile_for_import/_CopyFromZipFileExecutor", "signac.import_export._convert_schema_path_to_regex/RE_TYPES/_convert_bool"]
BOUNDS = {"leafnode": "3 relative paths of 1-3 segments over {a, b, ab}, every order", "pathmap": "2-3 jobs, state points {a: v} / {a: v, ab: w} / {a: {b: v}} with v from the textually colliding domain "
          "{1, 10, 1.0, '1', True, 'True', '1/x'}, path spec None / '{a}' style strings / '{{auto}}' variants", "zip": "2-3 job roots over {a/1, a/10, a/1x, a/1/2, b}, members = state point file + one data file (+ nested)"}
OUTSIDE = ["compression codecs (C code)", "tar member analysis as a kernel (covered by the E4 round trip)", "more than 3 jobs in kernels"]
STUBS = ["job stand-ins with id/sp()/statepoint/path for the export kernels; stub ZipFile (namelist/read) and in-memory open()/_mkdir_p for the zip kernel"]
ASSUMPTIONS = []

SEG = ["a", "b", "ab"]


def _path(n, s0, s1, s2):
    segs = [pick(SEG, s0), pick(SEG, s1), pick(SEG, s2)][:n]
    return os.sep.join(segs)


def _is_ancestor(p, q):
    return q.startswith(p + os.sep)


def order_dependent_leafnode(paths):
    """known-finding predicate: an ancestor is listed before its descendant"""
    return any(_is_ancestor(paths[i], paths[j]) for i in range(len(paths)) for j in range(len(paths)) if i < j)


def h_leafnode(n0: int, a0: int, a1: int, a2: int, n1: int, b0: int, b1: int, b2: int, n2: int, c0: int, c1: int):
    """raises  <=>  some path is a proper ancestor (component-wise) of another, independent of the order"""
    assert 1 <= n0 <= 3 and 1 <= n1 <= 3 and 0 <= n2 <= 2 and 0 <= a0 < 3 and 0 <= a1 < 3 and 0 <= a2 < 3 and 0 <= b0 < 3 and 0 <= b1 < 3 and 0 <= b2 < 3 and 0 <= c0 < 3 and 0 <= c1 < 3
    assert part_ok(a0 * 3 + b0)
    # canonical encoding: unused segment indices are 0 (no duplicate cases)
    assert (n0 >= 2 or a1 == 0) and (n0 >= 3 or a2 == 0) and (n1 >= 2 or b1 == 0) and (n1 >= 3 or b2 == 0) and (n2 >= 1 or c0 == 0) and (n2 >= 2 or c1 == 0)
    assert tier() != "quick" or n2 <= 1
    fresh_path()
    n0, n1, n2 = ci(n0, 1, 3), ci(n1, 1, 3), ci(n2, 0, 2)
    paths = [_path(n0, a0, a1, a2), _path(n1, b0, b1, b2)] + ([_path(n2, c0, c1, 0)] if n2 else [])
    with nt():
        want = any(_is_ancestor(p, q) for p in paths for q in paths)
        try:
            IE._check_directory_structure_validity(paths)
            raised = False
        except RuntimeError:
            raised = True
        # also as a dict view, the way _export_jobs passes it
        d = {i: p for i, p in enumerate(paths)}
        try:
            IE._check_directory_structure_validity(d.values())
            raised2 = False
        except RuntimeError:
            raised2 = True
    reached()
    assert raised == want and raised2 == want


def h_leafnode__reach(n0: int, a0: int, a1: int, a2: int, n1: int, b0: int, b1: int, b2: int, n2: int, c0: int, c1: int):
    assert 1 <= n0 <= 3 and 1 <= n1 <= 3 and 0 <= n2 <= 2 and 0 <= a0 < 3 and 0 <= a1 < 3 and 0 <= a2 < 3 and 0 <= b0 < 3 and 0 <= b1 < 3 and 0 <= b2 < 3 and 0 <= c0 < 3 and 0 <= c1 < 3
    paths = [_path(ci(n0, 1, 3), a0, a1, a2), _path(ci(n1, 1, 3), b0, b1, b2)]
    try:
        IE._check_directory_structure_validity(paths)
        raised = False
    except RuntimeError:
        raised = True
    assert not raised


# ---------------------------------------------------------------------------------------------- export path map
VALS = [1, 10, 1.0, "1", True, "True", "1/x"]


class _SP(dict):
    def __call__(self):
        return dict(self)


class _J:
    def __init__(self, sp):
        self._sp = sp
        self.id = calc_id(sp)
        self.path = "/src/" + self.id

    @property
    def sp(self):
        return _SP(self._sp)

    statepoint = sp

    def __hash__(self):
        return hash(self.id)

    def __eq__(self, o):
        return self.id == o.id

    def __str__(self):
        return self.id


SPECS = [None, False, "{a}", "a_{a}/{{auto}}", "{{auto:_}}", "x/{{auto}}", "{job.id}"]


def _mk_sp(shape, v, w):
    if shape == 0:
        return {"a": v}
    if shape == 1:
        return {"a": v, "ab": w}
    if shape == 2:
        return {"a": {"b": v}}
    return {"a": v, "b": {"c": w}}


def auto_path_not_unique(spec, sps):
    """known-finding predicate: automatic path (None) and two jobs whose distinguishing values render to the same text"""
    return spec == 0


def h_pathmap(shape: int, v0: int, w0: int, v1: int, w1: int, v2: int, n: int, spec: int):
    """_export_jobs with a recording copytree: either it raises before the first copy, or the job -> path map is injective and
    no target path is an ancestor of another (so no job is merged into / nested inside another one's export directory)."""
    assert 0 <= shape <= 3 and 0 <= v0 < 7 and 0 <= w0 < 3 and 0 <= v1 < 7 and 0 <= w1 < 3 and 0 <= v2 < 7 and 2 <= n <= 3 and 0 <= spec < 7 and part_ok(spec + 7 * shape)
    assert tier() != "quick" or (n == 2 and v2 == 0)
    assert (shape == 1 or shape == 3) or (w0 == 0 and w1 == 0)   # w is unused by shapes 0 and 2
    fresh_path()
    shape, n, spec = ci(shape, 0, 3), ci(n, 2, 3), ci(spec, 0, 6)
    sps = [_mk_sp(shape, pick(VALS, v0), pick(VALS, w0)), _mk_sp(shape, pick(VALS, v1), pick(VALS, w1)), _mk_sp(shape, pick(VALS, v2), pick(VALS, w0))][:n]
    with nt():
        ok = _pathmap_case(sps, SPECS[spec])
    reached()
    assert ok


def _pathmap_case(sps, spec):
    jobs = {}
    for sp in sps:
        j = _J(sp)
        jobs[j.id] = j
    jobs = list(jobs.values())
    copies = []
    try:
        for src, dst in IE._export_jobs(jobs, spec, lambda s, d: copies.append((s, d))):
            pass
    except Exception:
        return len(copies) == 0  # raised: must be before any copy
    dsts = [os.path.normpath(d) for _, d in copies]
    if len(copies) != len(jobs) or len(set(dsts)) != len(dsts):
        return False
    if len(dsts) > 1 and any(d in ("", ".") for d in dsts):
        return False
    if any(_is_ancestor(p, q) for p in dsts for q in dsts):
        return False
    if any(d.startswith("..") or os.path.isabs(d) for d in dsts):
        return False
    return True


def h_pathmap__reach(shape: int, v0: int, w0: int, v1: int, w1: int, v2: int, n: int, spec: int):
    assert 0 <= shape <= 3 and 0 <= v0 < 7 and 0 <= w0 < 7 and 0 <= v1 < 7 and 0 <= w1 < 7 and 0 <= v2 < 7 and 2 <= n <= 3 and 0 <= spec < 7
    sps = [_mk_sp(0, pick(VALS, v0), 0), _mk_sp(0, pick(VALS, v1), 0)]
    jobs = [_J(sp) for sp in sps]
    copies = []
    try:
        for _ in IE._export_jobs(jobs, None, lambda s, d: copies.append((s, d))):
            pass
    except Exception:
        pass
    assert len(copies) != 2  # twin: a successful two-job automatic export is reachable


# ---------------------------------------------------------------------------------------------- zip import attribution
ROOTS = ["a/1", "a/10", "a/1x", "a/1/2", "b", "a"]


class _Zip:
    def __init__(self, files):
        self.files = files

    def namelist(self):
        return list(self.files)

    def read(self, name):
        return self.files[name]


def _zip_case(roots, order):
    files = {}
    for i, r in enumerate(roots):
        files[r + "/signac_statepoint.json"] = json.dumps({"r": i}).encode()
        files[r + "/data.txt"] = ("data%d" % i).encode()
        files[r + "/sub/n.txt"] = ("nested%d" % i).encode()
    names = list(files)
    if order:
        names.reverse()
    z = _Zip({k: files[k] for k in names})
    pr = P.Project.__new__(P.Project)
    pr._path = "/vf_nonexistent/p"
    pr._workspace = "/vf_nonexistent/p/workspace"
    import threading
    pr._lock = threading.RLock()
    pr._sp_cache, pr._sp_cache_read, pr._sp_cache_misses, pr._sp_cache_warned, pr._sp_cache_miss_warning_threshold = {}, True, 0, False, 500
    written = {}

    class W:
        def __init__(self, fn):
            self.fn = fn

        def __enter__(self):
            return self

        def __exit__(self, *a):
            return False

        def write(self, b):
            written[os.path.normpath(self.fn)] = b

    saved = (getattr(IE, "open", None), IE._mkdir_p)
    IE.open = lambda fn, mode="r": W(fn)
    IE._mkdir_p = lambda p: None
    try:
        got = {}
        for src, ex in IE._analyze_zipfile_for_import(z, pr, None):
            got[src] = ex.job
            ex()
    finally:
        if saved[0] is None:
            del IE.open
        else:
            IE.open = saved[0]
        IE._mkdir_p = saved[1]
    # oracle: job roots = roots without a proper ancestor root (component-wise); every member of root r is written below job(r).path
    def anc(p, q):
        return q.startswith(p + "/")
    top = [r for r in roots if not any(anc(o, r) for o in roots)]
    if set(got) != set(top):
        return False
    want = {}
    for i, r in enumerate(roots):
        owner = [t for t in top if t == r or anc(t, r)][0]
        jp = got[owner].path
        for rel, content in (("signac_statepoint.json", json.dumps({"r": i}).encode()), ("data.txt", ("data%d" % i).encode()), ("sub/n.txt", ("nested%d" % i).encode())):
            full = r + "/" + rel
            want[os.path.normpath(jp + "/" + full[len(owner) + 1:])] = content
    if written != want:
        return False
    ws = pr._workspace + "/"
    return all(k.startswith(ws) and any(k.startswith(j.path + "/") for j in got.values()) for k in written)


def h_zipskip(r0: int, r1: int, r2: int, n: int, order: bool):
    """every archive directory is attributed to the job whose root contains it component-wise; nothing is written outside the jobs' directories"""
    assert 0 <= r0 < 6 and 0 <= r1 < 6 and 0 <= r2 < 6 and 2 <= n <= 3 and r0 != r1 and (n == 2 or (r2 != r0 and r2 != r1))
    fresh_path()
    n, order = ci(n, 2, 3), cb(order)
    roots = [pick(ROOTS, r0), pick(ROOTS, r1), pick(ROOTS, r2)][:n]
    with nt():
        ok = _zip_case(roots, order)
    reached()
    assert ok


def h_zipskip__reach(r0: int, r1: int, r2: int, n: int, order: bool):
    assert 0 <= r0 < 6 and 0 <= r1 < 6 and 0 <= r2 < 6 and 2 <= n <= 3 and r0 != r1 and (n == 2 or (r2 != r0 and r2 != r1))
    roots = [pick(ROOTS, r0), pick(ROOTS, r1)]
    with nt():
        ok = _zip_case(roots, False)
    assert not (ok and "a/1" in roots and "a/1/2" in roots)  # twin: nested roots handled on some path


HARNESSES = [
    dict(name="h_leafnode", twin="h_leafnode__reach", timeout=(400, 900), parts=(9, 9)),
    dict(name="h_pathmap", twin="h_pathmap__reach", timeout=(400, 1500), parts=(14, 28), unblock=True),
    dict(name="h_zipskip", twin="h_zipskip__reach", timeout=(300, 600), unblock=True),
]
