"""C16 — export then import reproduces the project.

Kernels (E1, CrossHair): leaf/node check, export path map (uniqueness / prefix-freeness before any copy), zip import attribution.
E3 (direct z3 regex queries generated from the live objects): schema-string regex == described layout, typed value languages.
E4 (real FS): full round trip (in harness C16 E4 section).
"""
import json, os, posixpath, types
from vflib.hutil import pick, reached, part_ok, kf_filter, spy, tier, fresh_path, nt, ci, cb

import signac.import_export as IE
import signac.project as P
from signac.job import calc_id

for _a in ("_check_directory_structure_validity", "_make_path_function", "_make_schema_based_path_function", "_check_path_function_unique", "_export_jobs",
           "_analyze_zipfile_for_import", "_convert_schema_path_to_regex"):
    spy(IE, _a)

CODE = ["signac.import_export._check_directory_structure_validity", "signac.import_export._export_jobs/_make_path_function/_make_schema_based_path_function/_check_path_function_unique",
        "signac.import_export._analyze_zipfile_for_import/_CopyFromZipFileExecutor", "signac.import_export._convert_schema_path_to_regex/RE_TYPES/_convert_bool"]
BOUNDS = {"leafnode": "3 relative paths of 1-3 segments over {a, b, ab, a.5}, every order", "pathmap": "2-3 jobs, state points {a: v} / {a: v, ab: w} / {a: {b: v}} with v from the textually colliding domain "
          "{1, 10, 1.0, '1', True, 'True', '1/x'}, path spec None / '{a}' style strings / '{{auto}}' variants", "import with schema": "every pair of jobs over {a: 1 | 10 | 1.0 | '1' | True | False} exported with automatic paths to {directory, zip, tar} and imported with a schema string a/{a[:int|float|bool]} "
          "or a callable that re-labels one directory with any state point of the universe", "import, non-unique": "2-3 directories without state point files named 1/01, 7/07/8, 3/4/04 or 1/2 below a/, as directory / zip / tar, schema 'a/{a:int}' or an equivalent callable", "zip": "2-3 job roots over {a/1, a/10, a/1x, a/1/2, b}, members = state point file + one data file (+ nested)"}
OUTSIDE = ["schema strings whose field type does not match the exported values: directories that do not match are skipped silently (only 'no corrupted or merged job, no copy before an error' is claimed for them)", "compression codecs (C code)", "tar member analysis as a kernel (covered by the E4 round trip)", "more than 3 jobs in kernels"]
STUBS = ["job stand-ins with id/sp()/statepoint/path for the export kernels; stub ZipFile (namelist/read) and in-memory open()/_mkdir_p for the zip kernel"]
ASSUMPTIONS = []

SEG = ["a", "b", "ab", "a.5"]     # "ab": prefix without separator; "a.5": a sibling that sorts between a node and its children ('.' < '/')


def _path(n, s0, s1, s2):
    segs = [pick(SEG, s0), pick(SEG, s1), pick(SEG, s2)][:n]
    return os.sep.join(segs)


def _is_ancestor(p, q):
    return q.startswith(p + os.sep)


def order_dependent_leafnode(paths):
    """known-finding predicate: an ancestor is listed before its descendant"""
    return any(_is_ancestor(paths[i], paths[j]) for i in range(len(paths)) for j in range(len(paths)) if i < j)


def h_leafnode(n0: int, a0: int, a1: int, a2: int, n1: int, b0: int, b1: int, b2: int, n2: int, c0: int, c1: int):
    """raises  <=>  some path is a proper ancestor (component-wise) of another, independent of the order"""
    assert 1 <= n0 <= 3 and 1 <= n1 <= 3 and 0 <= n2 <= 2 and 0 <= a0 < 4 and 0 <= a1 < 4 and 0 <= a2 < 4 and 0 <= b0 < 4 and 0 <= b1 < 4 and 0 <= b2 < 4 and 0 <= c0 < 4 and 0 <= c1 < 4
    assert part_ok(a0 * 4 + b0)
    # canonical encoding: unused segment indices are 0 (no duplicate cases)
    assert (n0 >= 2 or a1 == 0) and (n0 >= 3 or a2 == 0) and (n1 >= 2 or b1 == 0) and (n1 >= 3 or b2 == 0) and (n2 >= 1 or c0 == 0) and (n2 >= 2 or c1 == 0)
    assert tier() != "quick" or (n2 <= 1 and n0 <= 2)
    fresh_path()
    n0, n1, n2 = ci(n0, 1, 3), ci(n1, 1, 3), ci(n2, 0, 2)
    paths = [_path(n0, a0, a1, a2), _path(n1, b0, b1, b2)] + ([_path(n2, c0, c1, 0)] if n2 else [])
    with nt():
        want = any(_is_ancestor(p, q) for p in paths for q in paths)
        try:
            IE._check_directory_structure_validity(paths)
            raised = False
        except RuntimeError:
            raised = True
        # also as a dict view, the way _export_jobs passes it
        d = {i: p for i, p in enumerate(paths)}
        try:
            IE._check_directory_structure_validity(d.values())
            raised2 = False
        except RuntimeError:
            raised2 = True
    reached()
    assert raised == want and raised2 == want


def h_leafnode__reach(n0: int, a0: int, a1: int, a2: int, n1: int, b0: int, b1: int, b2: int, n2: int, c0: int, c1: int):
    assert 1 <= n0 <= 3 and 1 <= n1 <= 3 and 0 <= n2 <= 2 and 0 <= a0 < 4 and 0 <= a1 < 4 and 0 <= a2 < 4 and 0 <= b0 < 4 and 0 <= b1 < 4 and 0 <= b2 < 4 and 0 <= c0 < 4 and 0 <= c1 < 4
    paths = [_path(ci(n0, 1, 3), a0, a1, a2), _path(ci(n1, 1, 3), b0, b1, b2)]
    try:
        IE._check_directory_structure_validity(paths)
        raised = False
    except RuntimeError:
        raised = True
    assert not raised


# ---------------------------------------------------------------------------------------------- export path map
VALS = [1, 10, 1.0, "1", True, "True", "1/x"]


class _SP(dict):
    def __call__(self):
        return dict(self)


class _J:
    def __init__(self, sp):
        self._sp = sp
        self.id = calc_id(sp)
        self.path = "/src/" + self.id

    @property
    def sp(self):
        return _SP(self._sp)

    statepoint = sp

    def __hash__(self):
        return hash(self.id)

    def __eq__(self, o):
        return self.id == o.id

    def __str__(self):
        return self.id


SPECS = [None, False, "{a}", "a_{a}/{{auto}}", "{{auto:_}}", "x/{{auto}}", "{job.id}"]


def _mk_sp(shape, v, w):
    if shape == 0:
        return {"a": v}
    if shape == 1:
        return {"a": v, "ab": w}
    if shape == 2:
        return {"a": {"b": v}}
    return {"a": v, "b": {"c": w}}


def auto_path_not_unique(spec, sps):
    """known-finding predicate: automatic path (None) and two jobs whose distinguishing values render to the same text"""
    return spec == 0


def h_pathmap(shape: int, v0: int, w0: int, v1: int, w1: int, v2: int, n: int, spec: int):
    """_export_jobs with a recording copytree: either it raises before the first copy, or the job -> path map is injective and
    no target path is an ancestor of another (so no job is merged into / nested inside another one's export directory)."""
    assert 0 <= shape <= 3 and 0 <= v0 < 7 and 0 <= w0 < 3 and 0 <= v1 < 7 and 0 <= w1 < 3 and 0 <= v2 < 7 and 2 <= n <= 3 and 0 <= spec < 7 and part_ok(spec + 7 * shape)
    assert tier() != "quick" or (n == 2 and v2 == 0)
    assert (shape == 1 or shape == 3) or (w0 == 0 and w1 == 0)   # w is unused by shapes 0 and 2
    fresh_path()
    shape, n, spec = ci(shape, 0, 3), ci(n, 2, 3), ci(spec, 0, 6)
    sps = [_mk_sp(shape, pick(VALS, v0), pick(VALS, w0)), _mk_sp(shape, pick(VALS, v1), pick(VALS, w1)), _mk_sp(shape, pick(VALS, v2), pick(VALS, w0))][:n]
    with nt():
        ok = _pathmap_case(sps, SPECS[spec])
    reached()
    assert ok


def _pathmap_case(sps, spec):
    jobs = {}
    for sp in sps:
        j = _J(sp)
        jobs[j.id] = j
    jobs = list(jobs.values())
    copies = []
    try:
        for src, dst in IE._export_jobs(jobs, spec, lambda s, d: copies.append((s, d))):
            pass
    except Exception:
        return len(copies) == 0  # raised: must be before any copy
    dsts = [os.path.normpath(d) for _, d in copies]
    if len(copies) != len(jobs) or len(set(dsts)) != len(dsts):
        return False
    if len(dsts) > 1 and any(d in ("", ".") for d in dsts):
        return False
    if any(_is_ancestor(p, q) for p in dsts for q in dsts):
        return False
    if any(d.startswith("..") or os.path.isabs(d) for d in dsts):
        return False
    return True


def h_pathmap__reach(shape: int, v0: int, w0: int, v1: int, w1: int, v2: int, n: int, spec: int):
    assert 0 <= shape <= 3 and 0 <= v0 < 7 and 0 <= w0 < 7 and 0 <= v1 < 7 and 0 <= w1 < 7 and 0 <= v2 < 7 and 2 <= n <= 3 and 0 <= spec < 7
    sps = [_mk_sp(0, pick(VALS, v0), 0), _mk_sp(0, pick(VALS, v1), 0)]
    jobs = [_J(sp) for sp in sps]
    copies = []
    try:
        for _ in IE._export_jobs(jobs, None, lambda s, d: copies.append((s, d))):
            pass
    except Exception:
        pass
    assert len(copies) != 2  # twin: a successful two-job automatic export is reachable


# ---------------------------------------------------------------------------------------------- zip import attribution
ROOTS = ["a/1", "a/10", "a/1x", "a/1/2", "b", "a"]


class _Zip:
    def __init__(self, files):
        self.files = files

    def namelist(self):
        return list(self.files)

    def read(self, name):
        return self.files[name]


def _zip_case(roots, order):
    files = {}
    for i, r in enumerate(roots):
        files[r + "/signac_statepoint.json"] = json.dumps({"r": i}).encode()
        files[r + "/data.txt"] = ("data%d" % i).encode()
        files[r + "/sub/n.txt"] = ("nested%d" % i).encode()
    names = list(files)
    if order:
        names.reverse()
    z = _Zip({k: files[k] for k in names})
    pr = P.Project.__new__(P.Project)
    pr._path = "/vf_nonexistent/p"
    pr._workspace = "/vf_nonexistent/p/workspace"
    import threading
    pr._lock = threading.RLock()
    pr._sp_cache, pr._sp_cache_read, pr._sp_cache_misses, pr._sp_cache_warned, pr._sp_cache_miss_warning_threshold = {}, True, 0, False, 500
    written = {}

    class W:
        def __init__(self, fn):
            self.fn = fn

        def __enter__(self):
            return self

        def __exit__(self, *a):
            return False

        def write(self, b):
            written[os.path.normpath(self.fn)] = b

    saved = (getattr(IE, "open", None), IE._mkdir_p)
    IE.open = lambda fn, mode="r": W(fn)
    IE._mkdir_p = lambda p: None
    try:
        got = {}
        for src, ex in IE._analyze_zipfile_for_import(z, pr, None):
            got[src] = ex.job
            ex()
    finally:
        if saved[0] is None:
            del IE.open
        else:
            IE.open = saved[0]
        IE._mkdir_p = saved[1]
    # oracle: job roots = roots without a proper ancestor root (component-wise); every member of root r is written below job(r).path
    def anc(p, q):
        return q.startswith(p + "/")
    top = [r for r in roots if not any(anc(o, r) for o in roots)]
    if set(got) != set(top):
        return False
    want = {}
    for i, r in enumerate(roots):
        owner = [t for t in top if t == r or anc(t, r)][0]
        jp = got[owner].path
        for rel, content in (("signac_statepoint.json", json.dumps({"r": i}).encode()), ("data.txt", ("data%d" % i).encode()), ("sub/n.txt", ("nested%d" % i).encode())):
            full = r + "/" + rel
            want[os.path.normpath(jp + "/" + full[len(owner) + 1:])] = content
    if written != want:
        return False
    ws = pr._workspace + "/"
    return all(k.startswith(ws) and any(k.startswith(j.path + "/") for j in got.values()) for k in written)


def h_zipskip(r0: int, r1: int, r2: int, n: int, order: bool):
    """every archive directory is attributed to the job whose root contains it component-wise; nothing is written outside the jobs' directories"""
    assert 0 <= r0 < 6 and 0 <= r1 < 6 and 0 <= r2 < 6 and 2 <= n <= 3 and r0 != r1 and (n == 2 or (r2 != r0 and r2 != r1))
    fresh_path()
    n, order = ci(n, 2, 3), cb(order)
    roots = [pick(ROOTS, r0), pick(ROOTS, r1), pick(ROOTS, r2)][:n]
    with nt():
        ok = _zip_case(roots, order)
    reached()
    assert ok


def h_zipskip__reach(r0: int, r1: int, r2: int, n: int, order: bool):
    assert 0 <= r0 < 6 and 0 <= r1 < 6 and 0 <= r2 < 6 and 2 <= n <= 3 and r0 != r1 and (n == 2 or (r2 != r0 and r2 != r1))
    roots = [pick(ROOTS, r0), pick(ROOTS, r1)]
    with nt():
        ok = _zip_case(roots, False)
    assert not (ok and "a/1" in roots and "a/1/2" in roots)  # twin: nested roots handled on some path


# ---------------------------------------------------------------------------------------------- E4: export -> import round trip
import signac
from vflib import synclib as SL

RT_U = [{"a": 1}, {"a": 10}, {"a": 1.0}, {"a": "1"}, {"a": True}, {"a": 1, "ab": 2}, {"a": {"b": 1}}, {"a": "x y.z"}]
RT_TARGETS = ["out", "out.zip", "out.tar", "out.tar.gz", "out.tar.bz2", "out.tar.xz"]
RT_SPECS = [None, False, "{a}", "a_{a}/{{auto}}", "{{auto:_}}", "callable"]


def _project_content(pr):
    out = {}
    for job in pr:
        files = {}
        for dp, dn, fn in os.walk(job.path):
            for f_ in fn:
                rel = os.path.relpath(os.path.join(dp, f_), job.path)
                if rel not in ("signac_statepoint.json", "signac_job_document.json"):
                    with open(os.path.join(dp, f_), "rb") as fh:
                        files[rel] = fh.read()
        out[job.id] = (json.dumps(job.statepoint(), sort_keys=True), json.dumps(dict(job.document()), sort_keys=True), files)
    return out


def _roundtrip_case(mask, ti, si, schema_kind, deepsp):
    problems = []
    with SL.Scratch() as sc:
        src = signac.init_project(os.path.join(sc.root, "src"))
        for i, sp in enumerate(RT_U):
            if mask >> i & 1:
                j = src.open_job(sp).init()
                j.document["d"] = {"i": i}
                SL.put(j.fn("f.txt"), b"F%d" % i, SL.T_MID)
                SL.put(j.fn("sub/n.txt"), b"N%d" % i, SL.T_MID)
                if deepsp:
                    # a job that carries a foreign state point file deep inside its own data (e.g. an archived older job)
                    SL.put(j.fn("results/old/signac_statepoint.json"), b'{"a": 99}', SL.T_MID)
        want = _project_content(src)
        before_src = SL.snap(src.path)
        target = os.path.join(sc.root, "exp", RT_TARGETS[ti])
        os.makedirs(os.path.join(sc.root, "exp"))
        outside_before = SL.snap(sc.root)
        spec = RT_SPECS[si]
        if spec == "callable":
            spec = lambda job: os.path.join("byid", job.id[:16])
        try:
            src.export_to(target, path=spec)
            exported = True
        except Exception as e:  # noqa
            exported = False
            exc = e
        if SL.snap(src.path) != before_src:
            problems.append(("export changed the source project",))
        after = SL.snap(sc.root)
        stray = [k for k in after if k not in outside_before and not (k == "exp/" + RT_TARGETS[ti] or k.startswith("exp/" + RT_TARGETS[ti] + "/"))]
        if stray:
            problems.append(("export wrote outside its target", stray[:3]))
        if not exported:
            # the call must raise before any job has been copied
            if ti == 0:
                if os.path.exists(target) and any(v is not None for k, v in SL.snap(target).items()):
                    problems.append(("export raised after copying job data", type(exc).__name__, str(exc)[:80]))
            return problems
        dst = signac.init_project(os.path.join(sc.root, "dst"))
        around_before = {k: v for k, v in SL.snap(sc.root).items() if not k.startswith("dst/")}
        schema = None
        if schema_kind == 1:
            def schema(path):
                fn = os.path.join(path, "signac_statepoint.json")
                if os.path.isfile(fn):
                    with open(fn) as f_:
                        return json.load(f_)
            if ti != 0:
                schema = None
        try:
            dst.import_from(target, schema=schema)
        except Exception as e:  # noqa
            if not want:
                return problems      # an empty project exports nothing: there is no origin to import from
            problems.append(("import of a successful export raised", type(e).__name__, str(e)[:100]))
            return problems
        got = _project_content(signac.get_project(dst.path, search=False))
        if got != want:
            problems.append(("re-imported project differs", sorted(set(got) ^ set(want))[:3], [i for i in set(got) & set(want) if got[i] != want[i]][:2]))
        around_after = {k: v for k, v in SL.snap(sc.root).items() if not k.startswith("dst/")}
        if around_after != around_before:
            problems.append(("import wrote outside the importing project",))
        inside = SL.snap(dst.path)
        for k in inside:
            if k.startswith("workspace/"):
                parts = k.split("/")
                if len(parts[1]) != 32:
                    problems.append(("import wrote outside the job directories", k))
        try:
            signac.get_project(dst.path, search=False).check()
        except Exception as e:  # noqa
            problems.append(("imported project fails check()", type(e).__name__))
        # importing again never overwrites an existing job
        snap_dst = SL.snap(dst.path)
        try:
            dst.import_from(target, schema=schema)
            if want:
                problems.append(("second import into the same project did not refuse to overwrite existing jobs",))
        except Exception:  # noqa
            pass
        if SL.snap(dst.path) != snap_dst:
            problems.append(("a refused second import changed the project",))
    return problems


def h_roundtrip(mask: int, ti: int, si: int, schema_kind: int, deepsp: bool):
    assert 0 <= mask < 256 and 0 <= ti < 6 and 0 <= si < 6 and 0 <= schema_kind <= 1 and part_ok(mask)
    assert tier() != "quick" or (mask in (0, 1, 3, 5, 9, 17, 35, 67, 131, 7, 25, 255) and (schema_kind == 0 or ti == 0))
    assert (not deepsp) or mask in (1, 3, 35)
    fresh_path()
    mask, ti, si, schema_kind, deepsp = ci(mask, 0, 255), ci(ti, 0, 5), ci(si, 0, 5), ci(schema_kind, 0, 1), cb(deepsp)
    with nt():
        problems = _roundtrip_case(mask, ti, si, schema_kind, deepsp)
    reached()
    assert not problems


# ---------------------------------------------------------------------------------------------- E4: round trips with awkward content / locations
def _tree_content(pr):
    """like _project_content, but the file tree includes (empty) directories"""
    out = {}
    for job in pr:
        files = {}
        for dp, dn, fn in os.walk(job.path):
            for d_ in dn:
                files[os.path.relpath(os.path.join(dp, d_), job.path) + "/"] = None
            for f_ in fn:
                rel = os.path.relpath(os.path.join(dp, f_), job.path)
                if rel not in ("signac_statepoint.json", "signac_job_document.json"):
                    with open(os.path.join(dp, f_), "rb") as fh:
                        files[rel] = fh.read()
        out[job.id] = (json.dumps(job.statepoint(), sort_keys=True), json.dumps(dict(job.document()), sort_keys=True), files)
    return out


def _zip_bytes():
    import io, zipfile
    b = io.BytesIO()
    with zipfile.ZipFile(b, "w") as z:
        z.writestr("inner.txt", "hi")
    return b.getvalue()


SP_KINDS = ["(kind 5) the job with the EMPTY state point, alone and next to others, imported with a callable schema", "empty directory in a job", "a zip file among the job's data", "target path shares a string prefix with the importing project's workspace",
            "state point value with '..' segments", "path function that leaves the target"]
ESC_U = [[{"a": "../../escaped"}, {"a": "y"}], [{"a": ".."}, {"a": "y"}], [{"a": "x/../../../up"}, {"a": "y"}]]


def _rt_special_case(kind, ti, njobs, var):
    problems = []
    with SL.Scratch() as sc:
        src = signac.init_project(os.path.join(sc.root, "box", "src"))
        dst = signac.init_project(os.path.join(sc.root, "box", "dst"))
        sps = [{"a": i} for i in range(njobs)]
        if kind == 5:
            sps = [{}] if njobs == 1 else [{}, {"a": 1}]
        if kind == 3:
            sps = ESC_U[var % len(ESC_U)][:max(njobs, 2)]
        for i, sp in enumerate(sps):
            j = src.open_job(sp).init()
            j.document["d"] = i
            SL.put(j.fn("f.txt"), b"F%d" % i, SL.T_MID)
            if kind == 0:
                os.makedirs(j.fn("empty_dir"))
                os.makedirs(j.fn("sub/also_empty"))
                SL.put(j.fn("sub/n.txt"), b"N", SL.T_MID)
            if kind == 1:
                SL.put(j.fn("z.zip"), _zip_bytes(), SL.T_MID)
        want = _tree_content(src)
        name = RT_TARGETS[ti]
        if kind == 2:
            target = [dst.workspace + "_export", dst.workspace + "2", dst.path + "_old"][var % 3] + name[3:]
        else:
            target = os.path.join(sc.root, "box", "exp", name)
            os.makedirs(os.path.dirname(target))
        before_src = SL.snap(src.path)
        outside_before = SL.snap(sc.root)
        spec = None
        if kind == 5 and njobs == 2:
            spec = lambda job: "byid/" + job.id           # the empty state point has no automatic path next to other jobs
        if kind == 4:
            spec = [lambda job: os.path.join("..", "up", job.id), lambda job: os.path.join(sc.root, "abs", job.id), lambda job: os.path.join("ok", "..", "..", job.id)][var % 3]
        if kind == 6:
            # a path function whose results are different STRINGS for one and the same location
            first = sorted(j.id for j in src)[0]
            spec = [lambda job: "a/1" if job.id == first else "a//1", lambda job: "a/1" if job.id == first else "./a/1", lambda job: "a/1/" if job.id == first else "a/1/x"][var % 3]
        try:
            src.export_to(target, path=spec)
            exported = True
        except Exception as e:  # noqa
            exported, exc = False, e
        trel = os.path.relpath(target, sc.root)
        after = SL.snap(sc.root)
        stray = sorted(k for k in after if k not in outside_before and not (k == trel or k.startswith(trel + "/")))
        if stray:
            problems.append(("export wrote outside its target", stray[:3]))
        if SL.snap(src.path) != before_src:
            problems.append(("export changed the source project",))
        if not exported:
            if kind in (0, 1, 2, 5):
                problems.append(("export of an ordinary project raised", type(exc).__name__, str(exc)[:100]))
            elif ti == 0 and os.path.exists(target) and any(v is not None for v in SL.snap(target).values()):   # kinds 3, 4, 6: refusing is fine, but before the first copy
                problems.append(("export raised after copying job data",))
            return problems
        if kind in (3, 4) and ti != 0:
            # archives: member names must not leave the archive root either
            import tarfile, zipfile
            names = zipfile.ZipFile(target).namelist() if ti == 1 else tarfile.open(target).getnames()
            bad = [n for n in names if n.startswith("/") or ".." in n.split("/")]
            if bad:
                problems.append(("archive member names leave the archive root", bad[:3]))
                return problems
        around_before = {k: v for k, v in SL.snap(sc.root).items() if not k.startswith("box/dst/")}
        schema = None
        if kind == 5 and ti == 0:
            def schema(path):
                fn = os.path.join(path, "signac_statepoint.json")
                if os.path.isfile(fn):
                    with open(fn) as f_:
                        return json.load(f_)
        try:
            dst.import_from(target, schema=schema)
        except Exception as e:  # noqa
            problems.append(("import of a successful export raised", type(e).__name__, str(e)[:100]))
            return problems
        got = _tree_content(signac.get_project(dst.path, search=False))
        if got != want:
            detail = [(i, sorted(set(got[i][2]) ^ set(want[i][2]))[:3]) for i in set(got) & set(want) if got[i] != want[i]][:2]
            problems.append(("re-imported project differs", "jobs exported %d, imported %d" % (len(want), len(got)), detail))
        around_after = {k: v for k, v in SL.snap(sc.root).items() if not k.startswith("box/dst/")}
        if around_after != around_before:
            problems.append(("import wrote outside the importing project",))
    return problems


def h_rt_special(kind: int, ti: int, njobs: int, var: int):
    assert 0 <= kind <= 6 and 0 <= ti < 6 and 1 <= njobs <= 2 and 0 <= var <= 2 and part_ok(kind)
    assert kind != 6 or njobs == 2
    assert tier() != "quick" or ti <= 3
    fresh_path()
    kind, ti, njobs, var = ci(kind, 0, 6), ci(ti, 0, 5), ci(njobs, 1, 2), ci(var, 0, 2)
    with nt():
        problems = _rt_special_case(kind, ti, njobs, var)
    reached()
    assert not problems


# ---------------------------------------------------------------------------------------------- E4: import with a schema (string / callable)
IS_U = [{"a": 1}, {"a": 10}, {"a": 1.0}, {"a": "1"}, {"a": True}, {"a": False}]
IS_T = ["out", "out.zip", "out.tar"]
IS_S = ["a/{a:int}", "a/{a:float}", "a/{a}", "a/{a:bool}"]
IS_TYPES = [int, float, str, bool]


def _import_schema_case(i, j, ti, sk, m, spell=0):
    """export two jobs with automatic paths, import with a schema string or a callable schema: either the imported jobs are exact copies of
    source jobs (same id, state point, document, files) and check() passes, or the call raises and NO job has been copied"""
    problems = []
    with SL.Scratch() as sc:
        src = signac.init_project(os.path.join(sc.root, "src"))
        for k in (i, j):
            job = src.open_job(IS_U[k]).init()
            job.document["d"] = k
            SL.put(job.fn("f.txt"), b"F%d" % k, SL.T_MID)
            SL.put(job.fn("sub/n.txt"), b"N%d" % k, SL.T_MID)
        want = _project_content(src)
        target = os.path.join(sc.root, IS_T[ti])
        try:
            src.export_to(target)
        except Exception:  # noqa  (non-unique automatic paths are rejected: nothing to import)
            return problems, "no-export"
        dst = signac.init_project(os.path.join(sc.root, "dst"))
        if sk < 4:
            schema = IS_S[sk]
            matching = all(type(IS_U[k]["a"]) is IS_TYPES[sk] for k in (i, j))
        else:
            idi = src.open_job(IS_U[i]).id

            def schema(path):
                fn = os.path.join(path, "signac_statepoint.json")
                if os.path.isfile(fn):
                    with open(fn) as f_:
                        sp = json.load(f_)
                    return dict(IS_U[m]) if signac.job.calc_id(sp) == idi else sp
            matching = (m == i)
            if ti != 0:
                return problems, "callable-needs-directory"
        origin = target
        if spell and ti == 0:
            # the same directory, spelled differently by the caller
            os.makedirs(os.path.join(os.path.dirname(target), "x"), exist_ok=True)
            origin = [None, os.path.join(os.path.dirname(target), ".", os.path.basename(target)), os.path.join(os.path.dirname(target), "x", "..", os.path.basename(target)),
                      target + os.sep][spell]
        try:
            dst.import_from(origin, schema=schema)
            out = "ok"
        except Exception as e:  # noqa
            out = type(e).__name__
        dirs = sorted(os.listdir(dst.workspace))
        if out != "ok":
            if dirs:
                problems.append(("import raised after copying job data", out, len(dirs)))
            if matching:
                problems.append(("import with a matching schema raised", out))
            return problems, out
        try:
            signac.get_project(dst.path, search=False).check()
        except Exception as e:  # noqa
            problems.append(("imported project fails check()", type(e).__name__))
            return problems, out
        got = _project_content(signac.get_project(dst.path, search=False))
        for jid, c in got.items():
            if want.get(jid) != c:
                problems.append(("imported job is not an exact copy of a source job", jid, c[0]))
        if matching and got != want:
            problems.append(("matching schema: not all jobs imported", sorted(got), sorted(want)))
    return problems, out


def h_import_schema(i: int, j: int, ti: int, sk: int, m: int):
    assert 0 <= i < j <= 5 and 0 <= ti <= 2 and 0 <= sk <= 4 and 0 <= m <= 5 and (sk == 4 or m == 0) and (sk < 4 or ti == 0) and part_ok(i * 6 + j)
    fresh_path()
    i, j, ti, sk, m = ci(i, 0, 5), ci(j, 0, 5), ci(ti, 0, 2), ci(sk, 0, 4), ci(m, 0, 5)
    with nt():
        problems, out = _import_schema_case(i, j, ti, sk, m)
        if ti == 0 and (i, j) in ((0, 1), (2, 3)) and sk in (0, 1, 2):
            for spell in (1, 2, 3):
                problems += [("origin spelled differently (%d)" % spell,) + pr_ for pr_ in _import_schema_case(i, j, ti, sk, m, spell)[0]]
    reached()
    assert not problems


def h_import_schema__reach(i: int, j: int, ti: int, sk: int, m: int):
    assert 0 <= i < j <= 5 and 0 <= ti <= 2 and 0 <= sk <= 4 and 0 <= m <= 5 and (sk == 4 or m == 0) and (sk < 4 or ti == 0)
    i, j, ti, sk, m = ci(i, 0, 5), ci(j, 0, 5), ci(ti, 0, 2), ci(sk, 0, 4), ci(m, 0, 5)
    with nt():
        problems, out = _import_schema_case(i, j, ti, sk, m)
    assert out in ("ok", "no-export", "callable-needs-directory")  # twin: an import refused with an exception is reachable


IF_NAMES = [["1", "01"], ["1", "2"], ["7", "07", "8"], ["3", "4", "04"]]


def _import_foreign_case(ni, ti, sk):
    """a data space NOT written by signac (no state point files) imported with a schema: directories that the schema maps to one and the
    same job are rejected before anything is copied (a later directory must never be merged into / overwrite the job of an earlier one)"""
    import zipfile, tarfile
    problems = []
    names = IF_NAMES[ni]
    with SL.Scratch() as sc:
        root = os.path.join(sc.root, "data")
        for n in names:
            SL.put(os.path.join(root, "a", n, "f.txt"), n.encode(), SL.T_MID)
            SL.put(os.path.join(root, "a", n, "only_" + n), b"x", SL.T_MID)
        if ti == 0:
            origin = root
        elif ti == 1:
            origin = os.path.join(sc.root, "d.zip")
            with zipfile.ZipFile(origin, "w") as z:
                for n in names:
                    z.write(os.path.join(root, "a", n, "f.txt"), "a/%s/f.txt" % n)
                    z.write(os.path.join(root, "a", n, "only_" + n), "a/%s/only_%s" % (n, n))
        else:
            origin = os.path.join(sc.root, "d.tar")
            with tarfile.open(origin, "w") as t:
                t.add(os.path.join(root, "a"), "a")
        dst = signac.init_project(os.path.join(sc.root, "dst"))
        if sk == 0:
            schema = "a/{a:int}"
        else:
            def schema(path):
                b = os.path.basename(path)
                if b in names:
                    return {"a": int(b)}
        try:
            dst.import_from(origin, schema=schema)
            out = "ok"
        except Exception as e:  # noqa
            out = type(e).__name__
        got = {d: sorted(os.listdir(os.path.join(dst.workspace, d))) for d in os.listdir(dst.workspace)}
        dup = len({int(n) for n in names}) < len(names)
        if out != "ok":
            if got:
                problems.append(("import raised after copying job data", out, got))
            if not dup:
                problems.append(("import of distinct directories raised", out))
        else:
            if dup:
                problems.append(("two origin directories were imported into one job", got))
            for n in names:
                holders = [d for d, fl in got.items() if "only_" + n in fl]
                if len(holders) != 1 or any(("only_" + o) in got[holders[0]] for o in names if o != n):
                    problems.append(("origin directory not imported into a job of its own", n, got))
                elif open(os.path.join(dst.workspace, holders[0], "f.txt"), "rb").read() != n.encode():
                    problems.append(("file content of an imported directory replaced", n))
    return problems, out


def h_import_foreign(ni: int, ti: int, sk: int):
    assert 0 <= ni <= 3 and 0 <= ti <= 2 and 0 <= sk <= 1
    fresh_path()
    ni, ti, sk = ci(ni, 0, 3), ci(ti, 0, 2), ci(sk, 0, 1)
    with nt():
        problems, out = _import_foreign_case(ni, ti, sk)
    reached()
    assert not problems


HARNESSES = [
    dict(name="h_roundtrip", timeout=(900, 3000), parts=(16, 32), unblock=True),
    dict(name="h_import_foreign", timeout=(300, 600), unblock=True),
    dict(name="h_rt_special", timeout=(600, 1200), parts=(7, 7), unblock=True),
    dict(name="h_import_schema", twin="h_import_schema__reach", timeout=(600, 1200), parts=(4, 4), unblock=True),
    dict(name="h_leafnode", twin="h_leafnode__reach", timeout=(600, 1500), parts=(16, 16)),
    dict(name="h_pathmap", twin="h_pathmap__reach", timeout=(400, 1500), parts=(14, 28), unblock=True),
    dict(name="h_zipskip", twin="h_zipskip__reach", timeout=(300, 600), unblock=True),
]


# ---------------------------------------------------------------------------------------------- E3: schema string -> regex
SCHEMAS = ["{a}", "{a:int}", "a/{a:int}", "a/{a:int}/b/{b}", "data/{a:float}_x", "v1.0/{flag:bool}/{a:int}", "{n.c:int}", "p_{a:int}.d/{b}", "{a:int}/job", "run.{a:int}"]


def extra_checks(tier_):
    """direct z3 language-inclusion queries on the regexes produced by the LIVE _convert_schema_path_to_regex / RE_TYPES"""
    import re, z3
    from vflib import re2z3
    out = {"evaluations": 0, "distinct": 0, "queries": 0, "solver_s": 0.0, "violations": [], "errors": [], "samples": [], "info": {}}
    q = re2z3.Q()
    D = z3.Range("0", "9")
    NZ = z3.Range("1", "9")
    rendered = {
        "int": z3.Concat(z3.Option(z3.Re("-")), z3.Union(z3.Re("0"), z3.Concat(NZ, z3.Star(D)))),                      # str(int)
        "float": z3.Concat(z3.Option(z3.Re("-")), z3.Union(z3.Re("0"), z3.Concat(NZ, z3.Star(D))), z3.Re("."), z3.Plus(D)),  # plain decimals such as repr(1.5)
        "bool": z3.Union(*[z3.Re(w) for w in ("true", "false", "True", "False", "0", "1")]),
        "str": z3.Plus(z3.Union(z3.Range("a", "z"), z3.Range("A", "Z"), D, z3.Re("_"))),                               # word-like strings
    }
    witness_of = {"int": ["0", "-12", "7"], "float": ["1.5", "-0.25"], "bool": ["true", "False", "1"], "str": ["abc", "x_1"]}
    slash = z3.Concat(re2z3.FULL(), z3.Re("/"), re2z3.FULL())
    try:
        for t, R in rendered.items():
            L = re2z3.lang(IE.RE_TYPES[t])
            ok, w = q.included(f"rendered {t} values subset-of RE_TYPES[{t!r}]", R, L)
            if ok is False:
                conv = {"int": int, "float": float, "bool": IE._convert_bool, "str": str}[t]
                if re.fullmatch(IE.RE_TYPES[t], w) is None:
                    out["violations"].append({"name": "schema_type_regex", "msg": f"a rendered {t} value is not matched by RE_TYPES[{t!r}]: {w!r}", "call": None, "witness": w})
                else:
                    out["errors"].append(f"E3 witness {w!r} not reproduced for type {t}")
            elif ok is None:
                out["errors"].append(f"z3 unknown for type {t}")
            ne, w2 = q.nonempty(f"value language of {t} contains '/'", z3.Intersect(L, slash))
            if ne is True:
                if re.fullmatch(IE.RE_TYPES[t], w2):
                    out["violations"].append({"name": "schema_type_slash", "msg": f"RE_TYPES[{t!r}] matches a value containing a path separator: {w2!r}", "call": None, "witness": w2})
                else:
                    out["errors"].append(f"E3 witness {w2!r} not reproduced (slash) for type {t}")
    except NotImplementedError as e:
        out["errors"].append(f"RE_TYPES not translatable: {e}")
    # whole schema strings: the layout the schema describes (literals verbatim, each field a rendered value of its type) must be accepted,
    # and a string that breaks a literal must not be
    field = re.compile(r"\{(?P<key>[\.\w]+)(?::(?P<type>[a-z]+))?\}")
    for schema in SCHEMAS:
        try:
            rx, types = IE._convert_schema_path_to_regex(schema)
            L = re2z3.lang_for(rx, "match")
        except NotImplementedError as e:
            out["errors"].append(f"schema regex for {schema!r} not translatable: {e}")
            continue
        parts, idx, lits = [], 0, []
        for m in field.finditer(schema):
            lit = schema[idx:m.start()]
            if lit:
                parts.append(z3.Re(lit))
                lits.append(lit)
            parts.append(rendered[m.group("type") or "str"])
            idx = m.end()
        tail = schema[idx:]
        if tail:
            parts.append(z3.Re(tail))
            lits.append(tail)
        layout = parts[0] if len(parts) == 1 else z3.Concat(*parts)
        ok, w = q.included(f"layout described by {schema!r} subset-of its regex", layout, L)
        if ok is False:
            real = re.match(rx, w) is not None
            if not real:
                out["violations"].append({"name": "schema_regex_layout", "msg": f"schema {schema!r}: the path {w!r} follows the described layout but is not matched by the generated regex {rx!r}", "call": None, "witness": w})
            else:
                out["errors"].append(f"E3 witness {w!r} for schema {schema!r} does not reproduce")
        elif ok is None:
            out["errors"].append(f"z3 unknown for schema {schema!r}")
        # literal dots are literal: replacing a '.' of a literal by another character must not be accepted
        if any("." in l for l in lits):
            broken = []
            for p_ in parts:
                broken.append(p_)
            bparts, idx = [], 0
            for m in field.finditer(schema):
                lit = schema[idx:m.start()]
                if lit:
                    bparts.append(z3.Re(lit.replace(".", "x")))
                bparts.append(rendered[m.group("type") or "str"])
                idx = m.end()
            if schema[idx:]:
                bparts.append(z3.Re(schema[idx:].replace(".", "x")))
            B = bparts[0] if len(bparts) == 1 else z3.Concat(*bparts)
            ne, w3 = q.nonempty(f"schema {schema!r}: a literal dot matches another character", z3.Intersect(B, L))
            if ne is True and re.match(rx, w3):
                out["violations"].append({"name": "schema_regex_dot", "msg": f"schema {schema!r}: {w3!r} (dot replaced) is matched by {rx!r}", "call": None, "witness": w3})
        # parse back: concrete witnesses through the real path-based schema function
        fn = IE._make_path_based_schema_function(schema)
        # build one concrete path per schema from witness tables
        concrete, expect, idx = "", {}, 0
        for m in field.finditer(schema):
            concrete += schema[idx:m.start()]
            t = m.group("type") or "str"
            val = witness_of[t][len(expect) % len(witness_of[t])]
            concrete += val
            expect[m.group("key")] = {"int": int, "float": float, "bool": lambda v: {"true": True, "false": False, "1": True, "0": False}[v.lower()], "str": str}[t](val)
            idx = m.end()
        concrete += schema[idx:]
        got = fn(concrete)
        want = {}
        for k, v in expect.items():
            cur = want
            ks = k.split(".")
            for kk in ks[:-1]:
                cur = cur.setdefault(kk, {})
            cur[ks[-1]] = v
        if got != want:
            out["violations"].append({"name": "schema_parse_back", "msg": f"schema {schema!r}: path {concrete!r} parses to {got!r}, expected {want!r}", "call": None, "witness": concrete})
    out["evaluations"] = out["distinct"] = out["queries"] = q.n
    out["solver_s"] = q.t
    out["samples"] = q.log[:8]
    out["info"]["schema_regexes"] = {s_: IE._convert_schema_path_to_regex(s_)[0] for s_ in SCHEMAS}
    return out
