"""C18 — detect_schema and diff_jobs are exact summaries (E1: real Project.detect_schema / schema._build_job_statepoint_index /
_SearchIndexer.build_index / diff.diff_jobs on a solver-chosen corpus injected at Project._build_index)."""
import signac.project as P
import signac.schema as SC
import signac.diff as DF
from vflib import refs
from vflib.hutil import pick, reached, part_ok, kf_filter, spy, tier, fresh_path, nt, ci, cb

spy(P.Project, "detect_schema", "signac.project.Project.detect_schema")
spy(SC, "_build_job_statepoint_index")
spy(DF, "diff_jobs")
CODE = ["signac.project.Project.detect_schema", "signac.schema._build_job_statepoint_index", "signac._search_indexer._SearchIndexer.build_index/_TypedSetDefaultDict",
        "signac.diff.diff_jobs", "signac._utility._nested_dicts_to_dotted_keys/_dotted_dict_to_nested_dicts"]
BOUNDS = {"corpus": "2 jobs (quick) / 3 jobs (thorough), keys a (12 value shapes incl. missing, None, bool, int, equal float, str, list, empty mapping, nested mapping c; with 2 jobs also a list of mappings written in two key orders) and b (missing/0/1)",
          "selection": "every subset of the jobs via the subset argument", "exclude_const": "both"}
OUTSIDE = ["corpora > 3 jobs", "lists whose elements differ only by bool/int type ([True] vs [1] hash to one tuple slot)", "diff_jobs on state points containing an empty mapping (unhashable pair -> TypeError)"]
STUBS = ["Project._build_index yields the symbolic corpus; job objects for diff_jobs are minimal stand-ins exposing id and statepoint()"]
ASSUMPTIONS = ["a key is 'constant' iff every selected job has it with the same JSON value (type-exact)"]

MISSING = ("<missing>",)
TA = [MISSING, None, False, True, 0, 1, 1.0, "a", [0], {"c": 0}, {"c": 1}, {}, [{"x": 1, "y": 2}], [{"y": 2, "x": 1}],   # these two: ONE JSON value written with two key orders
      {"0": "x", "1": 5}, [7, 8], [{"b": [1]}]]        # a mapping with digit-string keys next to lists (positional look-alikes); a mapping inside a list holding a list
TD = TA[:11] + [{"c": {"d": 0, "e": 0}}, {"c": {"d": 1, "e": 1}}, {"c": {"d": 0, "e": 1, "f": {"g": 0, "h": 0}}}, {"c": {"d": 0, "e": 1, "f": {"g": 1, "h": 1}}}]  # diff_jobs domain: no empty mapping, deeper nesting
TB = [MISSING, 0, 1]


def mksp(ia, ib, table=None):
    sp = {}
    a, b = pick(table or TA, ia), pick(TB, ib)
    if a is not MISSING:
        sp["a"] = a
    if b is not MISSING:
        sp["b"] = b
    return sp


def mk(corpus):
    pr = P.Project.__new__(P.Project)

    def _build_index(include_job_document=False):
        for jid, sp in corpus.items():
            yield jid, {"sp": sp}

    pr._build_index = _build_index
    pr._job_dirs = lambda: iter(list(corpus))
    return pr


def _schema_case(sps, sel, ec):
    corpus = {f"j{i}": sp for i, sp in enumerate(sps)}
    ids = [f"j{i}" for i in range(len(sps)) if sel >> i & 1]
    full = sel == (1 << len(sps)) - 1
    got = mk(corpus).detect_schema(exclude_const=ec, subset=None if full else ids)
    want = refs.schema([corpus[i] for i in ids], ec)
    return refs.schema_of(got) == {k: v for k, v in want.items()} and set(got) == set(want)


def empty_vs_nonempty_mapping(ec, sel, *ia):
    """known-finding predicate: exclude_const, and among the selected jobs one has a = {} while another has a = {c: ..}"""
    chosen = [ia[i] for i in range(len(ia)) if sel >> i & 1]
    return bool(ec) and any(x == 11 for x in chosen) and any(x in (9, 10, 14) for x in chosen)


def h_schema2(a0: int, b0: int, a1: int, b1: int, sel: int, ec: bool):
    assert 0 <= a0 < 17 and 0 <= a1 < 17 and 0 <= b0 < 3 and 0 <= b1 < 3 and 0 <= sel < 4 and part_ok(a0)
    assert kf_filter("C18.empty_vs_nonempty_mapping", empty_vs_nonempty_mapping(ec, sel, a0, a1))
    fresh_path()
    sps = [mksp(a0, b0), mksp(a1, b1)]
    sel, ec = ci(sel, 0, 3), cb(ec)
    with nt():
        ok = _schema_case(sps, sel, ec)
    reached()
    assert ok


def h_schema2__reach(a0: int, b0: int, a1: int, b1: int, sel: int, ec: bool):
    assert 0 <= a0 < 12 and 0 <= a1 < 12 and 0 <= b0 < 3 and 0 <= b1 < 3 and 0 <= sel < 4
    sps = [mksp(a0, b0), mksp(a1, b1)]
    got = mk({"j0": sps[0], "j1": sps[1]}).detect_schema(exclude_const=cb(ec))
    assert not ("a.c" in got and "b" not in got and cb(ec))  # twin: a nested key reported while a constant key is dropped


def h_schema3(a0: int, a1: int, a2: int, b0: int, b2: int, sel: int, ec: bool):
    assert 0 <= a0 < 12 and 0 <= a1 < 12 and 0 <= a2 < 12 and 1 <= b0 < 3 and 1 <= b2 < 3 and 0 <= sel < 8 and part_ok(a0)
    assert kf_filter("C18.empty_vs_nonempty_mapping", empty_vs_nonempty_mapping(ec, sel, a0, a1, a2))
    fresh_path()
    sps = [mksp(a0, b0), mksp(a1, 1), mksp(a2, b2)]
    sel, ec = ci(sel, 0, 7), cb(ec)
    with nt():
        ok = _schema_case(sps, sel, ec)
    reached()
    assert ok


class _J:
    def __init__(self, i, sp):
        self.id = f"j{i}"
        self._sp = sp

    def statepoint(self):
        return self._sp

    def __hash__(self):
        return hash(self.id)

    def __eq__(self, o):
        return self.id == o.id


def _diff_case(sps):
    import copy
    jobs = [_J(i, copy.deepcopy(sp)) for i, sp in enumerate(sps)]
    got = DF.diff_jobs(*jobs)
    want, common = refs.diffs(sps)
    if set(got) != {j.id for j in jobs}:
        return False
    for i, j in enumerate(jobs):
        g = {k: refs._norm(v) for k, v in refs.flat_leaves(got[j.id]).items()}
        w = refs.flat_leaves(want[i])
        if g != w:
            return False
        merged = dict(common)
        merged.update(g)
        if merged != {k: refs._norm(v) for k, v in refs.flat_leaves(sps[i]).items()}:
            return False
    return True


def h_diff(a0: int, b0: int, a1: int, b1: int, a2: int, n: int):
    assert 0 <= a0 < 15 and 0 <= a1 < 15 and 0 <= a2 < 15 and 0 <= b0 < 3 and 0 <= b1 < 3 and 0 <= n <= 3 and part_ok(a0)
    assert tier() != "quick" or n <= 2 or (a2 == a1 and b1 == 1)  # quick: the third job repeats the second (3 distinct jobs: thorough)
    assert (n == 3 or a2 == 0) and (n >= 2 or (a1 == 0 and b1 == 0)) and (n >= 1 or b0 == 0)  # canonical encoding of unused slots
    fresh_path()
    sps = [mksp(a0, b0, TD), mksp(a1, b1, TD), mksp(a2, 1, TD)][: ci(n, 0, 3)]
    with nt():
        ok = _diff_case(sps) if sps else DF.diff_jobs() == {}
    reached()
    assert ok


def h_diff__reach(a0: int, b0: int, a1: int, b1: int, a2: int, n: int):
    assert 0 <= a0 < 11 and 0 <= a1 < 11 and 0 <= a2 < 11 and 0 <= b0 < 3 and 0 <= b1 < 3 and 0 <= n <= 3
    sps = [mksp(a0, b0), mksp(a1, b1)]
    got = DF.diff_jobs(_J(0, sps[0]), _J(1, sps[1]))
    assert not (got["j0"] == {"a": {"c": 0}} and got["j1"] == {"a": 1})


HARNESSES = [
    dict(name="h_schema2", twin="h_schema2__reach", timeout=(400, 900), parts=(6, 12)),
    dict(name="h_schema3", timeout=(1500, 1500), parts=(12, 12), tiers=("thorough",)),
    dict(name="h_diff", twin="h_diff__reach", timeout=(400, 1500), parts=(15, 15)),
]
