"""C11 — crashes and I/O errors in lifecycle operations never lose data or forge a job.

E2: the real Job/Project code runs natively on MemFS; the crash step / failing step `k` is an UNBOUNDED symbolic int that every
file-system step compares itself with under resumed tracing (so z3 decides each `k == step` and the final path covers all k beyond
the operation's last step); errno, torn length and scenario are small symbolic ints."""
import errno, json
from vflib import memfs, refs, ws
from vflib.hutil import pick, reached, part_ok, kf_filter, spy, tier, fresh_path, nt, ci, cb, FaultPlan
import signac.job as J
import signac.project as P

E2 = True
for _c, _a in ((J.Job, "init"), (J.Job, "move"), (J.Job, "remove"), (J.Job, "clear"), (J.Job, "reset"), (J._StatePointDict, "_save"), (J._StatePointDict, "save"), (P.Project, "clone")):
    spy(_c, _a, f"{_c.__module__}.{_c.__qualname__}.{_a}")
CODE = ["signac.job.Job.init / _StatePointDict.save / load", "signac.job._StatePointDict._save (re-key protocol with rollback)", "signac.job.Job.move / remove / clear / reset",
        "signac.project.Project.clone / check / _get_statepoint_from_workspace", "signac._utility._mkdir_p", "synced_collections JSON backend _save_to_resource (temp file + os.replace)"]
BOUNDS = {"scenarios": "clone onto an existing destination job; init fresh / existing valid / existing corrupt / existing empty dir; re-key to fresh / initialised / empty-dir destination; move (fresh / existing destination); clone with nested payload; remove; clear; reset",
          "fault sequences": "from step k on (any k) every call on a path inside one region {the job's directory, the destination directory in the same / the other project, a whole workspace} is denied with EACCES / EIO and "
                             "isfile/isdir/exists answer False there (what the standard library does when stat fails); state judged after access is restored",
          "faults": "crash before step k, torn write (0, 1 or 5 bytes) at step k, step k fails with EIO / ENOSPC / EACCES / EXDEV / EROFS; k ranges over ALL non-negative ints (unbounded symbolic); thorough: a second failing step k2 > k (EIO)",
          "payload": "document {k:1}, files f and sub/g; two bystander jobs with their own documents/files"}
OUTSIDE = ["a SINGLE failing stat inside os.path.isfile/isdir/exists (swallowed by the standard library and read as 'not there', like ENOENT); clone into a destination directory that stays inaccessible (nobody can remove the partial copy)", "ENOENT faults (read as 'not there' by design)", "power-loss reordering / fsync", "faults inside h5py", "more than two faults", "two faults during clone() where the second one hits the clean-up of the incomplete copy"]
STUBS = ["MemFS for os/shutil/open/uuid (validated against tmpfs on every run; counterexamples replayed on the real file system)", "Project built without __init__"]
ASSUMPTIONS = ["process-crash semantics: every completed file-system call is durable", "on an exception from a removal operation (remove/clear/reset) a partially removed payload is acceptable; nothing may be forged or silently reported as success"]

ERRNOS = [errno.EIO, errno.ENOSPC, errno.EACCES, errno.EXDEV, errno.EROFS]
OLD, NEW = {"a": 0}, {"a": 1}
PAYLOAD = {"f": b"F" * 7, "sub/g": b"G" * 9}
NSCN = 15


def _setup(scn, cache=False):
    """returns (sim, op thunk, removal?); cache: both projects carry a persistent state point cache listing every job present before the
    operation (update_cache() was run earlier) - check() after the restart must look at the files, not at the cache"""
    s, op, removal = _setup0(scn)
    if cache:
        for p in ("/p", "/q"):
            try:
                memfs.mkproject(s.fs, p).update_cache()
            except Exception:  # noqa  (scenarios that start from a damaged workspace: no cache can be written)
                pass
    return s, op, removal


def _setup0(scn):
    s = ws.Sim(paths=("/p", "/q"))
    fs = s.fs
    s.add_job("/p", {"a": 5}, doc={"other": 1}, files={"o": b"O"})
    s.add_job("/q", {"a": 6}, doc={"other": 2}, files={"o2": b"P"})
    new, removal, extra_ok = None, False, set()
    if scn == 0:      # init, fresh
        job = s.pr["/p"].open_job(OLD)
        op = lambda: job.init()
        new = None
    elif scn == 1:    # init, existing valid
        s.add_job("/p", OLD, doc={"k": 1}, files=PAYLOAD)
        job = s.pr["/p"].open_job(OLD)
        op = lambda: job.init()
    elif scn == 2:    # init, existing corrupt state point file (must not be trusted, must not be overwritten silently)
        s.add_job("/p", OLD, doc={"k": 1}, files=PAYLOAD)
        fs.put("/p/workspace/%s/signac_statepoint.json" % refs.canon_id(OLD), b'{"a": 7}')
        job = s.pr["/p"].open_job(OLD)
        op = lambda: job.init()
    elif scn == 3:    # init into an existing empty directory
        fs.put_dir("/p/workspace/" + refs.canon_id(OLD))
        job = s.pr["/p"].open_job(OLD)
        op = lambda: job.init()
    elif scn in (4, 5, 6, 7):
        s.add_job("/p", OLD, doc={"k": 1}, files=PAYLOAD)
        new = NEW
        if scn == 5:
            s.add_job("/p", NEW, doc={"dst": 1}, files={"d": b"D"})
        elif scn == 6:
            fs.put_dir("/p/workspace/" + refs.canon_id(NEW))
        job = s.pr["/p"].open_job(OLD)
        s.job = job
        if scn == 7:
            op = lambda: job.update_statepoint({"a": 1}, overwrite=True)
        else:
            op = lambda: job.statepoint.__setitem__("a", 1)
    elif scn in (8, 9):  # move to /q (fresh / existing destination)
        s.add_job("/p", OLD, doc={"k": 1}, files=PAYLOAD)
        if scn == 9:
            s.add_job("/q", OLD, doc={"dst": 1}, files={"d": b"D"})
        job = s.pr["/p"].open_job(OLD)
        op = lambda: job.move(s.pr["/q"])
    elif scn == 10:   # clone with nested payload
        s.add_job("/p", OLD, doc={"k": 1}, files=PAYLOAD)
        job = s.pr["/p"].open_job(OLD)
        op = lambda: s.pr["/q"].clone(job)
    elif scn == 14:   # clone onto a job that already exists in the destination project (refused; the existing job is a bystander of the failed call)
        s.add_job("/p", OLD, doc={"k": 1}, files=PAYLOAD)
        s.add_job("/q", OLD, doc={"dst": 1}, files={"d": b"D"})
        job = s.pr["/p"].open_job(OLD)
        op = lambda: s.pr["/q"].clone(job)
    elif scn == 15:   # clone into a destination whose directory exists but is EMPTY (an init that died after mkdir): refused, directory stays reported by check()
        s.add_job("/p", OLD, doc={"k": 1}, files=PAYLOAD)
        fs.put_dir("/q/workspace/" + refs.canon_id(OLD))
        job = s.pr["/p"].open_job(OLD)
        op = lambda: s.pr["/q"].clone(job)
    else:             # remove / clear / reset
        s.add_job("/p", OLD, doc={"k": 1}, files=PAYLOAD)
        job = s.pr["/p"].open_job(OLD)
        removal = True
        op = {11: job.remove, 12: job.clear, 13: job.reset}[scn]
    return s, op, removal


def _view(fs):
    """{project: {dir: {relpath: bytes}}} of both workspaces"""
    out = {}
    for p in ("/p", "/q"):
        snap = fs.snapshot(p + "/workspace")
        dirs = {}
        for k, v in snap.items():
            d, _, rest = k.partition("/")
            dirs.setdefault(d, {})
            if rest and v is not None:
                dirs[d][rest] = v
        out[p] = dirs
    return out


def _valid(files, d):
    raw = files.get("signac_statepoint.json")
    if raw is None:
        return None
    try:
        sp = json.loads(raw)
    except ValueError:
        return None
    return sp if refs.canon_id(sp) == d else None


class RegionFault:
    """fault SEQUENCE: from step k on, every file-system call on a path inside `region` is denied with errno e (a directory that became
    inaccessible: permission revoked, device error). os.path.isfile/isdir/exists answer False for such paths, as the standard library does
    when stat() fails; every other call raises. k is an unbounded symbolic int."""

    def __init__(self, k, err, region):
        self.k, self.err, self.region = k, err, region
        self.on = False
        self.n = 0
        self.fired = []

    def __call__(self, fs, idx, name, args):
        from vflib.hutil import decide
        i = self.n
        self.n += 1
        if not self.on and decide(lambda: self.k <= i):
            self.on = True
        if self.on and any(isinstance(a, str) and (a == self.region or a.startswith(self.region + "/")) for a in args[:2]):
            self.fired.append((i, name) + tuple(args))
            return ("deny", self.err)
        return None


def _region(reg):
    old_id, new_id = refs.canon_id(OLD), refs.canon_id(NEW)
    return ["/p/workspace/" + old_id, "/p/workspace/" + new_id, "/q/workspace/" + old_id, "/p/workspace", "/q/workspace"][reg]


def _case(scn, mode, k, t, e, k2=None, rev=False, reg=0, cache=False):
    s, op, removal = _setup(scn, cache)
    fs = s.fs
    fs.list_reverse = rev
    try:
        pre = _view(fs)
        plan = FaultPlan(mode, k, t=t, err=e, k2=k2, err2=errno.EIO) if mode != 5 else RegionFault(k, e, _region(reg))
        fs.hook = plan
        exc = None
        crashed = False
        try:
            op()
        except memfs.Crash:
            crashed = True
        except Exception as ex:  # noqa
            exc = ex
        fs.hook = None
        fs.revive()
        post = _view(fs)
        problems = []
        # a handled error leaves the HANDLE describing the job it points to: the next edit through it must not smuggle in the failed change
        job = getattr(s, "job", None)
        if job is not None and exc is not None and not crashed and scn in (4, 5, 6, 7):
            try:
                if refs.canon_id(job.statepoint()) != job.id:
                    problems.append(("after the failed state point change the handle's state point does not hash to its id", job.statepoint(), job.id))
            except Exception:  # noqa
                pass
        # reference success state (same scenario, no fault) -- only needed when the call returned normally under a fault
        old_id, new_id = refs.canon_id(OLD), refs.canon_id(NEW)
        affected = {old_id, new_id}
        # P1 bystanders byte-identical
        for p in ("/p", "/q"):
            for d, files in pre[p].items():
                if d in affected:
                    continue
                if post[p].get(d) != files:
                    problems.append(("bystander changed", p, d))
            for d in post[p]:
                if d not in pre[p] and d not in affected:
                    problems.append(("unexpected directory", p, d))
        if scn == 14 and post["/q"].get(old_id) != pre["/q"].get(old_id):
            problems.append(("clone onto an existing job altered or removed that job", sorted(post["/q"].get(old_id, {}))))
        if scn == 14 and post["/p"].get(old_id) != pre["/p"].get(old_id):
            problems.append(("clone damaged the source",))
        # P2 payload under exactly one id directory (unless removal)
        had_payload = any(all(pre[p].get(d, {}).get(r) == c for r, c in PAYLOAD.items()) for p in pre for d in (old_id,))
        if had_payload and not removal:
            holders = [(p, d) for p in post for d, files in post[p].items() if d in affected and all(files.get(r) == c for r, c in PAYLOAD.items()) and files.get("signac_job_document.json") is not None
                       and json.loads(files["signac_job_document.json"]) == {"k": 1}]
            if scn == 14:
                pass
            elif scn in (10, 15):
                # clone: the source must still hold everything; the copy may be partial only if the call did not return normally
                if ("/p", old_id) not in holders:
                    problems.append(("clone damaged the source", holders))
            elif len(holders) != 1:
                problems.append(("payload not under exactly one id directory", holders))
        if removal:
            # nothing forged: remaining files of the affected job are a subset of the original ones (document may be emptied)
            for p in post:
                for d in affected:
                    for r, c in post[p].get(d, {}).items():
                        orig = pre[p].get(d, {}).get(r)
                        if r == "signac_job_document.json":
                            if json.loads(c) not in ({}, {"k": 1}):
                                problems.append(("forged document", r, c))
                        elif r.startswith("._"):
                            continue
                        elif orig != c:
                            problems.append(("forged file after removal op", r))
        # P3 / P4: every directory validates or is named by check(); nothing validates with a state point the job never had
        from signac.errors import JobsCorruptedError
        for p in ("/p", "/q"):
            pr = memfs.mkproject(fs, p)
            try:
                pr.check()
                named = set()
            except JobsCorruptedError as ce:
                named = set(ce.job_ids)
            invalid = set()
            for d, files in post[p].items():
                if not (len(d) == 32 and all(c in "0123456789abcdef" for c in d)):
                    problems.append(("non-id directory in workspace", p, d))
                    continue
                sp = _valid(files, d)
                if sp is None:
                    invalid.add(d)
                elif d in affected and not (refs.same_json(sp, OLD) or refs.same_json(sp, NEW)):
                    problems.append(("forged state point", d, sp))
            if named != invalid:
                problems.append(("check() does not name exactly the invalid directories", p, sorted(named), sorted(invalid)))
            if invalid:
                detectable = True
        # P0: without any fault the operation behaves as in the reference run (same exception class or none)
        if not crashed and not plan.fired:
            ref_exc = _success_exc(scn, cache)
            if (type(exc).__name__ if exc is not None else None) != ref_exc:
                problems.append(("no fault was injected, but the operation ended differently from a fault-free run", type(exc).__name__ if exc else None, ref_exc))
        # P5: a handled I/O error propagates; never a silent partial success
        if mode in (3, 5) and plan.fired and not crashed:
            if exc is None:
                good = _success_view(scn, cache)
                if _strip_tmp(post) != _strip_tmp(good):
                    problems.append(("silent partial success: call returned normally after a failed step but the result differs from a fault-free run", plan.fired))
            else:
                any_invalid = any(_valid(files, d) is None for p in post for d, files in post[p].items())
                if not removal and not any_invalid and _strip_tmp(post) != _strip_tmp(pre) and _strip_tmp(post) != _strip_tmp(_success_view(scn, cache)):
                    if scn == 10:
                        pass  # a partial clone is an invalid directory unless the state point file was copied first -> covered by any_invalid/forged checks
                    problems.append(("exception raised but the state is neither the pre-state, nor the success state, nor check()-detectable", type(exc).__name__, plan.fired))
        errs = problems
    finally:
        s.close()
    return (not errs), errs, plan.fired, crashed, exc


_SUCCESS = {}
_SUCCESS_EXC = {}


def _success_exc(scn, cache=False):
    _success_view(scn, cache)
    return _SUCCESS_EXC[(scn, cache)]


def _success_view(scn, cache=False):
    if (scn, cache) not in _SUCCESS:
        from vflib.hutil import reset_buffers
        reset_buffers()
        s, op, removal = _setup(scn, cache)
        try:
            _SUCCESS_EXC[(scn, cache)] = None
            try:
                op()
            except Exception as ex_:  # noqa  (scenarios that fail by design: collision)
                _SUCCESS_EXC[(scn, cache)] = type(ex_).__name__
            _SUCCESS[(scn, cache)] = _view(s.fs)
        finally:
            s.close()
    return _SUCCESS[(scn, cache)]


def _strip_tmp(view):
    return {p: {d: {r: c for r, c in files.items() if not (r.split("/")[-1].startswith("._") or r.endswith("~"))} for d, files in dirs.items()} for p, dirs in view.items()}


def h_fault(scn: int, mode: int, k: int, t: int, e: int, rev: bool, cache: bool):
    """single crash / torn write / failing step at ANY step index k >= 0 of every lifecycle scenario; rev = directory listing order"""
    assert 0 <= scn <= NSCN and 1 <= mode <= 3 and 0 <= k and 0 <= t <= 2 and 0 <= e < 5 and part_ok(scn)
    assert (mode == 2 or t == 0) and (mode == 3 or e == 0) and (not cache or not rev)
    fresh_path()
    scn, mode, t, e, rev, cache = ci(scn, 0, NSCN), ci(mode, 1, 3), pick([0, 1, 5], t), pick(ERRNOS, e), cb(rev), cb(cache)
    with nt():
        r = _case(scn, mode, k, t, e, rev=rev, cache=cache)
    reached()
    assert r[0]


def h_fault__reach(scn: int, mode: int, k: int, t: int, e: int, rev: bool):
    assert 0 <= scn <= NSCN and 1 <= mode <= 3 and 0 <= k and 0 <= t <= 2 and 0 <= e < 5
    assert (mode == 2 or t == 0) and (mode == 3 or e == 0)
    scn, mode = ci(scn, 0, NSCN), ci(mode, 1, 3)
    with nt():
        r = _case(scn, mode, k, 0, errno.EIO)
    assert not (r[2] and r[4] is not None)  # twin: an injected failure that surfaces as an exception is reachable


def h_fault2(scn: int, k: int, d: int, e: int):
    """thorough: two failing steps k < k2 = k + 1 + d"""
    assert 0 <= scn <= NSCN and 0 <= k and 0 <= d and 0 <= e < 5 and part_ok(scn)
    assert scn not in (10, 14, 15)      # clone: a second fault that hits the clean-up of the failed copy leaves a partial copy nobody can remove (outside, see OUTSIDE)
    fresh_path()
    scn, e = ci(scn, 0, NSCN), pick(ERRNOS, e)
    k2 = k + 1 + d          # (symbolic arithmetic stays under tracing)
    with nt():
        r = _case(scn, 3, k, 0, e, k2=k2)
    reached()
    assert r[0]


def h_region(scn: int, reg: int, k: int, e: int, rev: bool):
    """fault SEQUENCE: from step k on (any k >= 0) every call on a path inside one directory region is denied (EACCES / EIO); queries answer False"""
    assert 0 <= scn <= NSCN and 0 <= reg <= 4 and 0 <= k and 0 <= e <= 1 and part_ok(scn)
    assert not (scn in (10, 14, 15) and reg in (2, 4))   # clone into a destination that stays inaccessible: the partial copy cannot be cleaned up by anybody (outside)
    fresh_path()
    scn, reg, e, rev = ci(scn, 0, NSCN), ci(reg, 0, 4), pick([errno.EACCES, errno.EIO], e), cb(rev)
    with nt():
        r = _case(scn, 5, k, 0, e, rev=rev, reg=reg)
    reached()
    assert r[0]


def h_region__reach(scn: int, reg: int, k: int, e: int, rev: bool):
    assert 0 <= scn <= NSCN and 0 <= reg <= 4 and 0 <= k and 0 <= e <= 1
    scn, reg = ci(scn, 0, NSCN), ci(reg, 0, 4)
    with nt():
        r = _case(scn, 5, k, 0, errno.EACCES, reg=reg)
    assert not (len(r[2]) >= 2 and r[4] is not None)  # twin: a denial that hits at least two calls and surfaces as an exception is reachable


HARNESSES = [
    dict(name="h_fault", twin="h_fault__reach", timeout=(600, 1500), parts=(16, 16)),
    dict(name="h_region", twin="h_region__reach", timeout=(600, 1500), parts=(16, 16)),
    dict(name="h_fault2", timeout=(1500, 1500), parts=(16, 16), tiers=("thorough",)),
]


def extra_checks(tier_):
    return ws.e2_extra(tier_)
