"""C07 — all query front ends, cursors and groupby agree with find_jobs.

E1 (kernel, corpus injected at Project._build_index): equivalent spellings; command-line token syntax vs mapping syntax.
E2 (MemFS): cursor length / iteration / indexing / slicing / membership; groupby partitions."""
import json
from vflib import memfs, refs, ws
from vflib.hutil import pick, reached, part_ok, kf_filter, spy, tier, fresh_path, nt, ci, cb, discard
import signac.project as P
import signac.filterparse as FP

E2 = True
FP._print_err = lambda *a, **k: None      # formatting / stderr output is not the subject
for _a in ("parse_filter_arg", "_parse_single", "_cast", "parse_filter", "_add_prefix"):
    spy(FP, _a)
spy(P.JobsCursor, "groupby", "signac.project.JobsCursor.groupby")
CODE = ["signac.filterparse.parse_filter_arg / parse_simple / _parse_single / _cast / _is_json_like / _is_regex / parse_filter / _add_prefix", "signac.project.Project.find_jobs / _find_job_ids", "signac.project.JobsCursor.__len__ / __iter__ / __getitem__ / __contains__ / groupby",
        "signac.project.Project.groupby"]
BOUNDS = {"spellings": "atoms {equality, $gt, $lte, $ne, $exists, $in, $regex} over keys {a, a.c (nested), speed, docs, doc.b} with ints in [-2,3] / strings, 2-3 jobs; spellings: nested mapping vs dotted key, with / without 'sp.' prefix, operator as mapping vs key suffix, "
                       "mapping vs sequence of pairs vs (for simple tokens) whitespace string", "cli": "token lists of 1-2 key/value pairs; values: ints |v| <= 1000 rendered with str, floats from a table, true/false/null, words, /regex/, JSON objects; keys a, sp.a, doc.b, a.c",
          "cursor": "3-job corpora x 6 filters (incl. empty): len, list, every index, every slice, membership of every universe job", "groupby": "keys {a, sp.a, doc.k, a.c / sp.a.c (nested), doc.d.e, (a, doc.k), (doc.k, a.c), None, callable} x default {None, 0} x cursor filter"}
OUTSIDE = ["the shell entry point itself (no signac executable in the image; __main__ calls parse_filter_arg + _find_job_ids, which are encoded)", "groupby over labels Python cannot order (mixed types)", "empty command-line tokens"]
STUBS = ["kernel harnesses: Project._build_index / _job_dirs yield the corpus; filterparse._print_err -> no-op", "E2 harnesses: MemFS"]
ASSUMPTIONS = []


def mk(corpus):
    pr = P.Project.__new__(P.Project)

    def _build_index(include_job_document=False):
        for jid, (sp, doc) in corpus.items():
            d = {"sp": sp}
            if include_job_document and doc is not None:
                d["doc"] = doc
            yield jid, d

    pr._build_index = _build_index
    pr._job_dirs = lambda: iter(list(corpus))
    return pr


KEYS = ["a", "a.c", "speed", "docs", "doc.b"]


def _corpus(v0, v1, v2):
    return {"j0": ({"a": v0, "speed": v0, "docs": v1}, {"b": v0}),
            "j1": ({"a": {"c": v1}, "speed": v1}, {"b": v1, "a": v0}),
            "j2": ({"a": v2, "docs": v2}, None)}


def _spellings(ki, atom, q):
    """all equivalent spellings of one atomic query"""
    key = KEYS[ki]
    isdoc = key.startswith("doc.")
    bare = key[4:] if isdoc else key
    ns = "doc" if isdoc else "sp"
    if atom == 0:
        val, ops = q, None
    elif atom == 1:
        val, ops = {"$gt": q}, ("$gt", q)
    elif atom == 2:
        val, ops = {"$lte": q}, ("$lte", q)
    elif atom == 3:
        val, ops = {"$ne": q}, ("$ne", q)
    elif atom == 4:
        val, ops = {"$exists": q >= 0}, ("$exists", q >= 0)
    elif atom == 5:
        val, ops = {"$in": [q, q + 1]}, ("$in", [q, q + 1])
    else:
        val, ops = {"$regex": "^[ab]"}, ("$regex", "^[ab]")
    out = []
    full = ns + "." + bare
    names = [full] + ([bare] if not isdoc else [])
    for nm in names:
        out.append({nm: val})
        if ops is not None:
            out.append({nm + "." + ops[0]: ops[1]})
        parts = nm.split(".")
        if len(parts) > 1:
            nested = val
            for p_ in reversed(parts[1:]):
                nested = {p_: nested}
            out.append({parts[0]: nested})
        out.append(list({nm: val}.items()))          # sequence-of-pairs form
    return out


def h_spellings(ki: int, atom: int, q: int, v0: int, v1: int, v2: int):
    assert 0 <= ki < 5 and 0 <= atom <= 6 and -1 <= q <= 2 and 0 <= v0 <= 2 and 0 <= v1 <= 2 and 0 <= v2 <= 3 and part_ok(ki * 7 + atom)
    fresh_path()
    ki, atom, q, v0, v1 = ci(ki, 0, 4), ci(atom, 0, 6), ci(q, -1, 2), ci(v0, 0, 2), ci(v1, 0, 2)
    v2 = pick([0, 1, "a", "bz"], v2)
    with nt():
        c = _corpus(v0, v1, v2)
        pr = mk(c)
        results = []
        for f in _spellings(ki, atom, q):
            try:
                results.append(sorted(j.id for j in pr.find_jobs(f)) if False else sorted(pr.find_jobs(f)._ids))
            except TypeError:
                results.append("TypeError")   # order comparison between unorderable values: excluded by the property, but then for EVERY spelling
        ok = all(r == results[0] for r in results)
        first = _spellings(ki, atom, q)[0]
        if results[0] != "TypeError":
            want = sorted(j for j, (sp, doc) in c.items() if refs.match({"sp": sp, "doc": doc or {}}, first))
            ok = ok and results[0] == want
    reached()
    assert ok


def h_spellings__reach(ki: int, atom: int, q: int, v0: int, v1: int, v2: int):
    assert 0 <= ki < 5 and 0 <= atom <= 6 and -1 <= q <= 2 and 0 <= v0 <= 2 and 0 <= v1 <= 2 and 0 <= v2 <= 3
    ki, atom, q, v0, v1 = ci(ki, 0, 4), ci(atom, 0, 6), ci(q, -1, 2), ci(v0, 0, 2), ci(v1, 0, 2)
    with nt():
        pr = mk(_corpus(v0, v1, 0))
        r = sorted(pr.find_jobs(_spellings(ki, atom, q)[0])._ids)
    assert not (len(r) == 1 and ki == 2)  # twin: a query on the key 'speed' that selects exactly one job


WORDS = ["abc", "x1", "True", "none", "1e3", "1.5", "-0.25", "a.b", "it's"]
CLI_KEYS = ["a", "sp.a", "doc.b", "a.c"]


def h_cli_int(ki: int, v: int, second: bool, w: int):
    """integer tokens: parse_filter_arg([key, str(v)]) == {key: v} for |v| <= 1000 (the token stays symbolic through int())"""
    assert 0 <= ki < 4 and (-1000 <= v <= 1000 if tier() != "quick" else -30 <= v <= 130) and 0 <= w < 9 and part_ok(ki)
    assert tier() != "quick" or not second or w < 3
    fresh_path()
    key = pick(CLI_KEYS, ki)
    tokens = [key, str(v)] + (["doc.z", pick(WORDS, w)] if second else [])
    got = FP.parse_filter_arg(tokens)
    reached()
    assert got[key] == v and type(got[key]) is int
    if second:
        assert set(got) == {key, "doc.z"}
    else:
        assert set(got) == {key}


def _cli_expect(word):
    if word in ("true", "false", "null"):
        return {"true": True, "false": False, "null": None}[word]
    try:
        return int(word)
    except ValueError:
        try:
            return float(word)
        except ValueError:
            return word


VALUE_TOKENS = ["true", "false", "null", "abc", "x1", "True", "none", "1e3", "1.5", "-0.25", "a.b", "007", "+5", "/^a.*b$/", "//", '{"$gt": 1}', '{"$in": [1, "x"]}', "[1, 2]", '{"b": {"$exists": false}}', "!",
                '{"$gt":1}', r"/^a\.b$/", r"/x\d+$/", '{"$in":[1,"x"]}', "'q'"]
NTOK = len(VALUE_TOKENS)


def h_cli_tokens(ki: int, t: int, n: int, k2: int, t2: int):
    """command-line token syntax vs the mapping it stands for (key value pairs, single key = $exists, /re/ = $regex, JSON tokens)"""
    assert 0 <= ki < 4 and 0 <= t < NTOK and 1 <= n <= 4 and 0 <= k2 < 4 and 0 <= t2 < NTOK and k2 != ki
    assert (n >= 3 or (k2 == (ki + 1) % 4 and t2 == 0)) and (n != 1 or t == 0) and part_ok(t)
    assert tier() != "quick" or n <= 3
    fresh_path()
    ki, t, n, k2, t2 = ci(ki, 0, 3), ci(t, 0, NTOK - 1), ci(n, 1, 4), ci(k2, 0, 3), ci(t2, 0, NTOK - 1)
    with nt():
        key, tok = CLI_KEYS[ki], VALUE_TOKENS[t]
        tokens = [key, tok, CLI_KEYS[k2], VALUE_TOKENS[t2]][:n]

        def one(k, v):
            if v is None or v == "!":
                return {"$exists": True}
            if (v[0] == "{" and v[-1] == "}") or (v[0] == "[" and v[-1] == "]"):
                return json.loads(v)
            if v.startswith("/") and v.endswith("/"):
                return {"$regex": v[1:-1]}
            return _cli_expect(v)
        want = {}
        for i in range(0, n, 2):
            want[tokens[i]] = one(tokens[i], tokens[i + 1] if i + 1 < n else None)
        got = FP.parse_filter_arg(tokens)
        ok = got == want and all(type(got[k]) is type(want[k]) for k in want)
        # and both select the same jobs
        c = _corpus(1, 0, "abc")
        pr = mk(c)
        try:
            r1 = sorted(pr._find_job_ids(dict(got)))
        except Exception as e:  # noqa
            r1 = type(e).__name__
        try:
            r2 = sorted(pr._find_job_ids(dict(want)))
        except Exception as e:  # noqa
            r2 = type(e).__name__
        ok = ok and r1 == r2
        # the string front end: find_jobs("key value ...") splits at white space and reads the tokens like the command line does
        if not any(" " in tk for tk in tokens):
            try:
                got3 = dict(FP.parse_filter(" ".join(tokens)))
                r3 = sorted(pr._find_job_ids(dict(got3)))
            except Exception as e:  # noqa
                got3, r3 = None, type(e).__name__
            ok = ok and r3 == r2 and (isinstance(r2, str) or got3 == want)
    reached()
    assert ok


def h_cli_json(ki: int, v: int):
    """a single JSON token is the filter itself"""
    assert 0 <= ki < 4 and -5 <= v <= 5
    fresh_path()
    ki, v = ci(ki, 0, 3), ci(v, -5, 5)
    with nt():
        f = {CLI_KEYS[ki]: {"$gte": v}, "$or": [{"a": v}, {"doc.b": {"$ne": v}}]}
        got = FP.parse_filter_arg([json.dumps(f)])
        ok = got == f and FP.parse_filter_arg([]) is None and FP.parse_filter_arg(None) is None
        single = FP.parse_filter_arg([CLI_KEYS[ki]])
        ok = ok and single == {CLI_KEYS[ki]: {"$exists": True}}
    reached()
    assert ok


# ------------------------------------------------------------------------------------------------ E2: cursor and groupby
U = [{"a": 0, "n": {"c": 0}}, {"a": 1, "n": {"c": 0}}, {"a": 1, "n": {"c": 1}, "x": 5}, {"a": 2, "n": 7}]   # the last job stores a scalar where the others store a mapping
FILTERS = [None, {}, {"a": 1}, {"a": {"$lt": 2}}, {"n.c": 0}, {"doc.k": 1}, {"x": {"$exists": False}}, {"a": 7}]


def _populate(mask, docmask):
    s = ws.Sim(paths=("/p",))
    present = []
    for i in range(4):
        if mask >> i & 1:
            doc = {"k": i % 2, "d": {"e": i % 2}} if docmask >> i & 1 else None
            s.add_job("/p", U[i], doc=doc)
            present.append((refs.canon_id(U[i]), U[i], doc))
    return s, present


def _cursor_case(mask, docmask, fi):
    s, present = _populate(mask, docmask)
    problems = []
    try:
        pr = memfs.mkproject(s.fs)
        flt = FILTERS[fi]
        want = sorted(i for i, sp, doc in present if refs.match({"sp": sp, "doc": doc or {}}, flt or {}))
        cur = pr.find_jobs(flt)
        if len(cur) != len(want):
            problems.append(("len", len(cur), len(want)))
        ids = [j.id for j in cur]
        if sorted(ids) != want or len(set(ids)) != len(ids):
            problems.append(("iteration", sorted(ids), want))
        for j in cur:
            if not refs.same_json(j.statepoint(), [sp for i, sp, d in present if i == j.id][0]):
                problems.append(("iterated job state point", j.id))
        for n in range(len(want)):
            if cur[n].id != ids[n]:
                problems.append(("index", n))
        for a in range(0, len(want) + 1):
            for b in range(a, len(want) + 1):
                if [j.id for j in cur[a:b]] != ids[a:b]:
                    problems.append(("slice", a, b))
        for i in range(4):
            job = pr.open_job(U[i])
            if (job in cur) != (job.id in want):
                problems.append(("membership", i))
        if not flt:
            if sorted(j.id for j in pr) != want or len(pr) != len(want):
                problems.append(("project iteration",))
        else:
            # a filtered cursor is a snapshot: after the workspace changes, ALL its views still describe the same id set
            # the caller's filter mapping is reused / mutated after find_jobs() and before the cursor is first evaluated
            f_ = json.loads(json.dumps(flt))
            cur3 = pr.find_jobs(f_)
            f_.clear()
            f_["a"] = 99
            if sorted(j.id for j in cur3) != want or len(cur3) != len(want):
                problems.append(("cursor follows later changes of the caller's filter mapping", sorted(j.id for j in cur3), want))
            # (a second cursor whose FIRST membership test comes after the change; `cur` has answered membership tests already)
            cur2 = pr.find_jobs(flt)
            ids2 = [j.id for j in cur2]
            gone = None
            if want:
                gone = pr.open_job(id=want[0])
                gone.remove()
            added = pr.open_job({"a": 0, "b": 0, "extra": 1}).init()
            for c_, ids_ in ((cur, ids), (cur2, ids2)):
                if len(c_) != len(ids_) or [j.id for j in c_] != ids_ or [j.id for j in c_[0:len(ids_)]] != ids_:
                    problems.append(("evaluated cursor changed its len / iteration / slice after a workspace change",))
                for i in range(4):
                    job = pr.open_job(U[i])
                    if (job in c_) != (job.id in ids_):
                        problems.append(("membership after a workspace change disagrees with the cursor's iteration", i))
                if added in c_:
                    problems.append(("a job added after the cursor was evaluated is a member, but not iterated",))
    finally:
        s.close()
    return problems


def h_cursor(mask: int, docmask: int, fi: int):
    assert 0 <= mask < 16 and 0 <= docmask < 16 and 0 <= fi < 8 and docmask & ~mask == 0 and part_ok(fi)
    assert tier() != "quick" or docmask in (0, mask)
    fresh_path()
    mask, docmask, fi = ci(mask, 0, 15), ci(docmask, 0, 15), ci(fi, 0, 7)
    with nt():
        problems = _cursor_case(mask, docmask, fi)
    reached()
    assert not problems


GKEYS = ["a", "sp.a", "doc.k", "n.c", "sp.n.c", "doc.d.e", ("a", "doc.k"), ("doc.k", "n.c"), None, "callable", "x", "doc.zz"]


def _resolve(sp, doc, key):
    """a job's own value for a grouping key (refs._MISSING if it does not have it)"""
    parts = key.split(".")
    if parts[0] == "doc":
        cur, parts = doc or {}, parts[1:]
    else:
        cur, parts = sp, (parts[1:] if parts[0] == "sp" else parts)
    for p_ in parts:
        if isinstance(cur, dict) and p_ in cur:
            cur = cur[p_]
        else:
            return refs._MISSING
    return cur


def _groupby_case(mask, docmask, gi, use_default, fi, oneshot=False):
    s, present = _populate(mask, docmask)
    problems = []
    try:
        pr = memfs.mkproject(s.fs)
        flt = FILTERS[fi]
        selected = [(i, sp, doc) for i, sp, doc in present if refs.match({"sp": sp, "doc": doc or {}}, flt or {})]
        key = GKEYS[gi]
        default = 0 if use_default else None
        cur = pr.find_jobs(flt)
        if key == "callable":
            kf = lambda job: job.sp["a"] % 2
            groups = [(k, [j.id for j in g]) for k, g in cur.groupby(kf)]
            want = {}
            for i, sp, doc in selected:
                want.setdefault(sp["a"] % 2, []).append(i)
        elif key is None:
            groups = [(k, [j.id for j in g]) for k, g in cur.groupby()]
            want = {i: [i] for i, sp, doc in selected}
        else:
            # a tuple key is also given as a one-shot iterable (the parameter is documented as "str, iterable, or callable")
            key_arg = (k_ for k_ in key) if (isinstance(key, tuple) and oneshot) else key
            groups = [(k, [j.id for j in g]) for k, g in cur.groupby(key_arg, default=default)]
            keys = [key] if isinstance(key, str) else list(key)
            order = [k for k in keys if not k.startswith("doc.")] + [k for k in keys if k.startswith("doc.")]
            want = {}
            for i, sp, doc in selected:
                vals = [_resolve(sp, doc, k) for k in order]
                if any(v is refs._MISSING for v in vals):
                    if default is None:
                        continue
                    vals = [default if v is refs._MISSING else v for v in vals]
                label = vals[0] if isinstance(key, str) else tuple(vals)
                want.setdefault(label, []).append(i)
        got = {}
        for k, ids in groups:
            if k in got:
                problems.append(("label yielded twice", k))
            got.setdefault(k, []).extend(ids)
        allids = [i for ids in got.values() for i in ids]
        if len(allids) != len(set(allids)):
            problems.append(("groups are not disjoint",))
        if {k: sorted(v) for k, v in got.items()} != {k: sorted(v) for k, v in want.items()}:
            problems.append(("groups", {str(k): sorted(v) for k, v in got.items()}, {str(k): sorted(v) for k, v in want.items()}))
        if not flt and key not in ("callable",) :
            pg = {k: sorted(j.id for j in g) for k, g in (pr.groupby(key, default=default) if key is not None else pr.groupby())}
            if pg != {k: sorted(v) for k, v in want.items()}:
                problems.append(("Project.groupby differs",))
    except TypeError as e:
        problems.append(("TypeError", str(e)[:80]))
    finally:
        s.close()
    return problems


def h_groupby(mask: int, docmask: int, gi: int, use_default: bool, fi: int):
    assert 0 <= mask < 16 and 0 <= docmask < 16 and 0 <= gi < 12 and 0 <= fi < 8 and docmask & ~mask == 0 and part_ok(gi)
    assert tier() != "quick" or (docmask in (0, mask) and fi in (0, 2, 3, 4, 6) and mask in (0, 3, 7, 13, 15))
    fresh_path()
    mask, docmask, gi, use_default, fi = ci(mask, 0, 15), ci(docmask, 0, 15), ci(gi, 0, 11), cb(use_default), ci(fi, 0, 7)
    with nt():
        problems = _groupby_case(mask, docmask, gi, use_default, fi)
        if isinstance(GKEYS[gi], tuple):
            problems += _groupby_case(mask, docmask, gi, use_default, fi, oneshot=True)
    reached()
    assert not problems


HARNESSES = [
    dict(name="h_spellings", twin="h_spellings__reach", timeout=(600, 1500), parts=(35, 35)),
    dict(name="h_cli_int", timeout=(600, 1500), parts=(4, 4)),
    dict(name="h_cli_tokens", timeout=(600, 1500), parts=(10, 20)),
    dict(name="h_cli_json", timeout=(200, 400)),
    dict(name="h_cursor", timeout=(600, 1500), parts=(8, 8)),
    dict(name="h_groupby", timeout=(600, 1500), parts=(12, 12)),
]


def extra_checks(tier_):
    return ws.e2_extra(tier_)
