"""C08 — the state point cache is transparent, and update_cache makes it exact.

E2: real Project/Job code natively on MemFS (gzip over the MemFS file objects, synchronous ThreadPool stand-in, constant clock).
Symbolic: the history (opcode + argument per step), the initial workspace subset, the state of the cache file."""
import copy, gzip, json
from vflib import memfs, refs, ws
from vflib.hutil import pick, reached, part_ok, kf_filter, spy, tier, fresh_path, nt, ci, cb
import signac.project as P

E2 = True
for _a in ("update_cache", "_update_in_memory_cache", "_read_cache", "_get_statepoint", "_find_job_ids", "_build_index"):
    spy(P.Project, _a, "signac.project.Project." + _a)
CODE = ["signac.project.Project.update_cache / _update_in_memory_cache / _read_cache / _remove_persistent_cache_file", "signac.project.Project._get_statepoint / _register / open_job(id=)",
        "signac.project.Project._find_job_ids / _build_index / __len__ / _job_dirs", "signac.job.Job.__init__ (by id, cache lookup) / remove / statepoint setter"]
BOUNDS = {"universe": "4 jobs {a: 0..3}", "history": "length <= 2 (quick) / 3 (thorough; length 4 from one stale-cache state) over {init i, remove i, re-key i -> (i+1)%4, update_cache, restart session, delete cache file}",
          "initial state": "5 representative subsets of the universe present (none, one, two non-adjacent, two adjacent, all); cache file absent / exact / stale (one extra id, one missing id, or both)",
          "observations": "len, find_jobs() ids, find_jobs({a: q}) for every q, open_job(id=..).statepoint() for every existing id; each in the running session, in a fresh session, and in a fresh session with the cache file deleted"}
OUTSIDE = ["corrupted workspaces (C09)", "universes larger than 4 jobs", "cache files written by other signac versions"]
STUBS = ["MemFS for os/open/gzip/uuid; ThreadPool -> synchronous map; time.time -> constant (validated against tmpfs on every run)"]
ASSUMPTIONS = []

U = [{"a": i} for i in range(4)]
CACHE = "/p/.signac/statepoint_cache.json.gz"
PREFIXES = sorted({refs.canon_id(sp)[0] for sp in U})


def _write_cache(fs, entries):
    fs.put(CACHE, gzip.compress(json.dumps({refs.canon_id(sp): sp for sp in entries}).encode(), mtime=0))


def _read_cache_file(fs):
    raw = fs.get(CACHE)
    return None if raw is None else json.loads(gzip.decompress(raw))


def _observe(pr):
    out = {"len": len(pr), "all": sorted(j.id for j in pr.find_jobs()), "ids": sorted(pr._find_job_ids())}
    for q in range(4):
        out["q%d" % q] = sorted(j.id for j in pr.find_jobs({"a": q}))
    for i in out["ids"]:
        out["sp" + i] = pr.open_job(id=i).statepoint()
        out["csp" + i] = dict(pr.open_job(id=i).cached_statepoint)
    # abbreviated ids (the first character: {a:0} and {a:2} share theirs) resolve against the WORKSPACE
    for c in PREFIXES:
        try:
            out["pre" + c] = pr.open_job(id=c).id
        except LookupError as e:
            out["pre" + c] = "KeyError" if isinstance(e, KeyError) else "LookupError"
    return out


def _expected(present):
    sps = [U[i] for i in sorted(present)]
    ids = sorted(refs.canon_id(sp) for sp in sps)
    out = {"len": len(sps), "all": ids, "ids": ids}
    for q in range(4):
        out["q%d" % q] = sorted(refs.canon_id(sp) for sp in sps if sp["a"] == q)
    for sp in sps:
        out["sp" + refs.canon_id(sp)] = sp
        out["csp" + refs.canon_id(sp)] = sp
    for c in PREFIXES:
        m = [i for i in ids if i.startswith(c)]
        out["pre" + c] = m[0] if len(m) == 1 else ("LookupError" if m else "KeyError")
    return out


def _clone_fs(fs):
    f2 = memfs.MemFS()
    f2.ino, f2.tree, f2.mtime = dict(fs.ino), dict(fs.tree), dict(fs.mtime)
    f2.next_ino, f2.clock = fs.next_ino, fs.clock
    return f2


def _check_all(fs, pr, present, problems, tag):
    want = _expected(present)
    got = _observe(pr)
    if got != want:
        problems.append((tag, "running session", {k: (got.get(k), want.get(k)) for k in set(got) | set(want) if got.get(k) != want.get(k)}))
    real = isinstance(fs, memfs.RealFS)
    for label, delete in (("fresh session", False), ("fresh session, cache file deleted", True)):
        if real and delete:
            continue           # replay on the real file system: the observations are read-only, the deleted-file variant needs a copy
        f2 = fs if real else _clone_fs(fs)
        if delete:
            f2.delete_raw(CACHE)
        memfs.install(f2)
        try:
            # a session whose very FIRST action is the abbreviated look-up (nothing registered in memory yet)
            for c in PREFIXES:
                try:
                    g = memfs.mkproject(f2).open_job(id=c).id
                except LookupError as e:
                    g = "KeyError" if isinstance(e, KeyError) else "LookupError"
                if g != want["pre" + c]:
                    problems.append((tag, label, "abbreviated id as the first action of the session", c, g, want["pre" + c]))
            g2 = _observe(memfs.mkproject(f2))
        finally:
            memfs.install(fs)
        if g2 != want:
            problems.append((tag, label, {k: (g2.get(k), want.get(k)) for k in set(g2) | set(want) if g2.get(k) != want.get(k)}))


def stale_after_restart(hist):
    """known-finding predicate placeholder (whole-harness): update_cache in a session that registered nothing new leaves a stale file"""
    return True


def _hist_case(init_mask, cache_state, ops, peek=False):
    from vflib.hutil import reset_buffers
    fs = ws.new_fs()
    memfs.install(fs)
    problems = []
    try:
        pr = memfs.mkproject(fs)
        present = set()
        for i in range(4):
            if init_mask >> i & 1:
                pr.open_job(U[i]).init()
                present.add(i)
        # cache file state: 0 absent, 1 exact, 2 one extra (stale) id, 3 one id missing, 4 both
        if cache_state:
            ent = [U[i] for i in sorted(present)]
            absent = [U[i] for i in range(4) if i not in present]
            if cache_state in (2, 4) and absent:
                ent = ent + [absent[0]]
            if cache_state in (3, 4) and present:
                ent = [e for e in ent if e != U[min(present)]]
            _write_cache(fs, ent)
        pr = memfs.mkproject(fs)   # the history starts in a fresh session
        if peek:
            _check_all(fs, pr, present, problems, "initial")     # the session has looked at the project (and its cache file) before the history starts
        handles = {}
        for n, (op, arg) in enumerate(ops):
            if op == 0:      # init job arg
                pr.open_job(U[arg]).init()
                present.add(arg)
            elif op == 1:    # remove
                if arg in present:
                    pr.open_job(U[arg]).remove()
                    present.discard(arg)
                else:
                    continue
            elif op == 2:    # re-key arg -> arg+1
                tgt = (arg + 1) % 4
                if arg in present and tgt not in present:
                    j = pr.open_job(U[arg])
                    j.statepoint["a"] = tgt
                    present.discard(arg)
                    present.add(tgt)
                else:
                    continue
            elif op == 3:    # update_cache
                steps_before = fs.step
                ret = pr.update_cache()
                cf = _read_cache_file(fs)
                want = {refs.canon_id(U[i]): U[i] for i in present}
                if cf != want and not (cf is None and not want and ret is None):
                    problems.append((n, "after update_cache() the cache file does not list exactly the workspace", sorted((cf or {}).keys()), sorted(want)))
                if ret is not None and ret != len(want):
                    problems.append((n, "update_cache() return value", ret, len(want)))
                w0 = len([x for x in fs.log if x[0] in ("open_w", "replace", "write")])
                ret2 = pr.update_cache()
                w1 = len([x for x in fs.log if x[0] in ("open_w", "replace", "write")])
                if ret2 is not None or w1 != w0:
                    problems.append((n, "an immediate second update_cache() found something to do", ret2, w1 - w0))
            elif op == 6:    # ANOTHER process (its own Project object) initialises job arg
                memfs.mkproject(fs).open_job(U[arg]).init()
                present.add(arg)
            elif op == 7:    # re-key arg -> arg+1 through a handle obtained BY ID
                tgt = (arg + 1) % 4
                if arg in present and tgt not in present:
                    j = pr.open_job(id=refs.canon_id(U[arg]))
                    j.statepoint["a"] = tgt
                    present.discard(arg)
                    present.add(tgt)
                else:
                    continue
            elif op == 8:    # the identical state point is assigned again through a handle obtained by id (re-applying an id -> state point table)
                if arg in present:
                    j = pr.open_job(id=refs.canon_id(U[arg]))
                    j.statepoint = dict(U[arg])
                else:
                    continue
            elif op == 4:    # restart
                pr = memfs.mkproject(fs)
            elif op == 5:    # delete cache file
                fs.delete_raw(CACHE)
            _check_all(fs, pr, present, problems, (n, op, arg))
    finally:
        memfs.uninstall()
        if isinstance(fs, memfs.RealFS):
            fs.cleanup()
    return (not problems), problems


NOPS = 27


def _dec(x):
    """op code 0..2 take an argument 0..3 -> 12 + 3 argument-free ops = 15 instances"""
    if x < 12:
        return x // 4, x % 4
    if x < 15:
        return x - 12 + 3, 0
    return 6 + (x - 15) // 4, (x - 15) % 4


def h_hist(init_mask: int, cache_state: int, o0: int, o1: int, o2: int, o3: int, n: int, peek: bool):
    assert 0 <= init_mask < 16 and 0 <= cache_state <= 4 and 0 <= o0 < NOPS and 0 <= o1 < NOPS and 0 <= o2 < NOPS and 0 <= o3 < NOPS and 1 <= n <= 4 and part_ok(o0)
    assert (n >= 2 or o1 == 0) and (n >= 3 or o2 == 0) and (n >= 4 or o3 == 0)
    assert n <= 2 or (tier() != "quick" and not peek and ((n == 3 and init_mask == 5 and cache_state in (0, 4)) or (n == 4 and init_mask == 5 and cache_state == 4 and max(o0, o1, o2, o3) < 15)))   # sized to ~15 min on 16 cores
    assert not peek or (cache_state in (1, 4) and init_mask in (1, 5))
    assert init_mask in (0, 1, 5, 6, 15)      # representative initial subsets: none, one, two non-adjacent, two adjacent, all
    fresh_path()
    init_mask, cache_state, n = ci(init_mask, 0, 15), ci(cache_state, 0, 4), ci(n, 1, 4)
    ops = [_dec(ci(o, 0, NOPS - 1)) for o in (o0, o1, o2, o3)][:n]
    peek = cb(peek)
    with nt():
        r = _hist_case(init_mask, cache_state, ops, peek)
    reached()
    assert r[0]


def h_hist__reach(init_mask: int, cache_state: int, o0: int, o1: int, o2: int, o3: int, n: int):
    assert 0 <= init_mask < 16 and 0 <= cache_state <= 4 and 0 <= o0 < 15 and 1 <= n <= 4
    init_mask, cache_state = ci(init_mask, 0, 15), ci(cache_state, 0, 4)
    with nt():
        fs = memfs.MemFS()
        memfs.install(fs)
        pr = memfs.mkproject(fs)
        for i in range(4):
            if init_mask >> i & 1:
                pr.open_job(U[i]).init()
        ret = pr.update_cache()
        memfs.uninstall()
    assert ret is None  # twin: update_cache writing a non-empty cache is reachable


def h_chunks(n: int, c: int):
    """_split_and_print_progress (used to load state points in chunks once a project has thousands of uncached jobs): the chunks are a
    partition of the input in order, for every length and chunk count (E1: the real generator with symbolic sizes)"""
    assert 0 <= n <= 60 and 1 <= c <= 12
    fresh_path()
    n, c = ci(n, 0, 60), ci(c, 1, 12)
    with nt():
        items = list(range(n))
        try:
            chunks = list(P._split_and_print_progress(iterable=items, num_chunks=c, write=lambda *a, **k: None, desc="x"))
            flat = [x for ch in chunks for x in ch]
            ok = flat == items
        except Exception as e:  # noqa
            ok = False
    reached()
    assert ok


# ------------------------------------------------------------------------------------------------ E4: the REAL Project constructor, configuration options
def _config_case(th, cached, njobs, nonfinite=False):
    """a project opened through the real constructor whose configuration file sets the cache-miss warning threshold (hand-edited or written
    by `signac config`): queries answer the same with a fresh, a stale and without a cache file"""
    import os, shutil
    import signac
    root = "/dev/shm/vf_c08cfg_%d" % os.getpid()
    shutil.rmtree(root, ignore_errors=True)
    problems = []
    try:
        pr = signac.init_project(root)
        for i in range(njobs):
            pr.open_job(U[i]).init()
        if nonfinite:
            # legal, if unusual, state point values: no cut-off / not measured
            pr.open_job({"r_cut": float("inf"), "t": float("nan")}).init()
        if cached == 1:
            pr.update_cache()
        elif cached == 2:
            pr.update_cache()
            pr.open_job(U[njobs]).init()      # the cache file is stale by one job
            njobs += 1
        if th is not None:
            with open(os.path.join(root, ".signac", "config"), "a") as f:
                f.write("statepoint_cache_miss_warning_threshold = %s\n" % th)
        want = _expected(set(range(njobs)))
        if nonfinite:
            prn = signac.get_project(root, search=False)
            try:
                prn.update_cache()
                if prn.update_cache() is not None:
                    problems.append(("second update_cache() found something to do",))
                import gzip as _gz
                cf = json.loads(_gz.decompress(open(os.path.join(root, ".signac", "statepoint_cache.json.gz"), "rb").read()))
                if len(cf) != njobs + 1 or any(v is None for v in cf.values()):
                    problems.append(("cache file after update_cache() is not exact", sorted(cf)))
            except Exception as e:  # noqa
                problems.append(("update_cache() failed on an uncorrupted workspace", type(e).__name__, str(e)[:80]))
            prn.open_job({"r_cut": float("inf"), "t": float("nan")}).remove()
            try:
                prn.update_cache()
            except Exception as e:  # noqa
                problems.append(("update_cache() failed", type(e).__name__))
        try:
            got = _observe(signac.get_project(root, search=False))
        except Exception as e:  # noqa
            problems.append(("queries raised", type(e).__name__, str(e)[:100]))
            got = want
        if got != want:
            problems.append(("observations differ", {k: (got.get(k), want.get(k)) for k in set(got) | set(want) if got.get(k) != want.get(k)}))
    finally:
        shutil.rmtree(root, ignore_errors=True)
    return problems


def h_config(th: int, cached: int, njobs: int, nonfinite: bool):
    assert 0 <= th <= 4 and 0 <= cached <= 2 and 1 <= njobs <= 3
    fresh_path()
    th, cached, njobs, nonfinite = pick([None, 0, 1, 2, 500], th), ci(cached, 0, 2), ci(njobs, 1, 3), cb(nonfinite)
    with nt():
        problems = _config_case(th, cached, njobs, nonfinite)
    reached()
    assert not problems


HARNESSES = [
    dict(name="h_chunks", timeout=(300, 600)),
    dict(name="h_config", timeout=(300, 600), unblock=True),
    dict(name="h_hist", twin="h_hist__reach", timeout=(900, 3000), parts=(27, 27)),
]


def extra_checks(tier_):
    return ws.e2_extra(tier_)
