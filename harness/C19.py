"""C19 — discovery resolves to the nearest enclosing project; init_project is idempotent (E4: layouts materialised on the real file system)."""
import json, os
import signac
from signac import Project
from vflib import synclib as SL
from vflib.hutil import pick, reached, part_ok, kf_filter, spy, tier, fresh_path, nt, ci, cb, discard
import signac.project as P
import signac._config as CFG

spy(CFG, "_locate_config_dir")
spy(P.Project, "get_project", "signac.project.Project.get_project")
spy(P.Project, "get_job", "signac.project.Project.get_job")
spy(P.Project, "init_project", "signac.project.Project.init_project")
CODE = ["signac._config._locate_config_dir / _get_project_config_fn / _raise_if_older_schema", "signac.project.Project.get_project / get_job / init_project / __init__", "signac.get_project / get_job / init_project"]
BOUNDS = {"layouts": "directory chains of depth <= 4 (quick) / 5 (thorough); every level is a plain sub-directory, a directory named 'workspace', or a 32-hex-named directory (only as a child of a project's workspace), and may or may not be a project; id-named levels carry distinct ids or all the same id; "
                     "plus a side branch with a symlinked job directory (to a plain directory or to another project's job)", "queries": "EVERY directory of the layout and a non-existent child, as absolute path and relative to every ancestor used as cwd; search=True/False",
          "init_project": "existing project with any combination of {document, cache file, jobs, extra config key}; as a fresh directory; nested below an existing project"}
OUTSIDE = ["a directory named workspace that is itself a project root", "id-like names elsewhere than directly below a project's workspace (excluded by the property)", "symlinked project directories"]
STUBS = []
ASSUMPTIONS = ["tmpfs path semantics"]

IDS = ["0123456789abcdef0123456789abcdef", "fedcba9876543210fedcba9876543210", "00000000000000000000000000000000", "11111111111111111111111111111111", "22222222222222222222222222222222"]


def _valid(kinds, projs):
    """id-named levels only directly below a 'workspace' level whose parent is a project (level -1 = the scratch root, a project iff projs bit 0... see _build)"""
    for i, k in enumerate(kinds):
        if k == 1 and projs[i]:
            return False   # a directory named 'workspace' that is itself a project is ambiguous (whose workspace holds its children?): outside
        if k == 2:
            if i < 1 or kinds[i - 1] != 1:
                return False
            holder = i - 2
            if holder < -1:
                return False
            if holder == -1:
                return False
            if not projs[holder]:
                return False
    return True


def _idname(i, same):
    return IDS[0] if same else IDS[i]


def _build(root, kinds, projs, same=False):
    """returns list of level directories (absolute); same: every id-named level carries the SAME id (a job of a nested project that has the
    id of the enclosing job)"""
    levels = []
    cur = root
    for i, k in enumerate(kinds):
        name = ["d%d" % i, "workspace", _idname(i, same)][k]
        cur = os.path.join(cur, name)
        os.makedirs(cur, exist_ok=True)
        levels.append(cur)
    for i, p in enumerate(projs):
        if p:
            os.makedirs(os.path.join(levels[i], ".signac"), exist_ok=True)
            with open(os.path.join(levels[i], ".signac", "config"), "w") as f:
                f.write("schema_version = 2\n")
    return levels


def _want_project(levels, projs, q_level, search):
    """nearest enclosing project of levels[q_level] (inclusive)"""
    rng = range(q_level, -1, -1) if search else [q_level]
    for i in rng:
        if i >= 0 and projs[i]:
            return levels[i]
    return None


def _queries(levels, cwd_levels):
    """(path string to pass, level index it denotes, cwd to use)"""
    out = []
    for i, lv in enumerate(levels):
        out.append((lv, i, None))
        for c in cwd_levels:
            out.append((os.path.relpath(lv, levels[c]), i, levels[c]))
    return out


def _layout_case(kinds, projs, same=False):
    problems = []
    with SL.Scratch() as sc:
        base = os.path.join(sc.root, "base")
        os.makedirs(base)
        levels = _build(base, kinds, projs, same)
        n = len(levels)
        old = os.getcwd()
        try:
            for path, li, cwd in _queries(levels, range(n)):
                os.chdir(cwd or old)
                for search in (True, False):
                    want = _want_project(levels, projs, li, search)
                    try:
                        got = signac.get_project(path, search=search).path
                    except LookupError:
                        got = None
                    except Exception as e:  # noqa
                        got = ("error", type(e).__name__, str(e)[:60])
                    if got != want:
                        problems.append(("get_project", path, cwd, search, got, want))
                # get_job: innermost id-named level at or above li
                jl = [i for i in range(li + 1) if kinds[i] == 2]
                try:
                    j = signac.get_job(path)
                    gotj = (j.id, j.project.path, os.path.realpath(j.path))
                except LookupError:
                    gotj = None
                except Exception as e:  # noqa
                    gotj = ("error", type(e).__name__, str(e)[:60])
                if jl:
                    i = jl[-1]
                    wantj = (_idname(i, same), levels[i - 2], os.path.realpath(levels[i]))
                else:
                    wantj = None
                if gotj != wantj:
                    problems.append(("get_job", path, cwd, gotj, wantj))
            os.chdir(old)
            # non-existent path
            for fn in (lambda p: signac.get_project(p), lambda p: signac.get_job(p)):
                try:
                    fn(os.path.join(levels[-1], "does", "not", "exist"))
                    problems.append(("non-existent path did not raise LookupError",))
                except LookupError:
                    pass
                except Exception as e:  # noqa
                    problems.append(("non-existent path raised", type(e).__name__))
        finally:
            os.chdir(old)
    return problems


def _dec(code, n):
    kinds, projs = [], []
    for i in range(n):
        d = code % 6
        code //= 6
        kinds.append(d % 3)
        projs.append(d // 3 == 1)
    return kinds, projs


def h_layout(n: int, code: int, same: bool):
    """all layouts of depth n encoded base 6 (3 kinds x project bit per level); same: all id-named levels share one id"""
    assert 1 <= n <= 5 and 0 <= code < 6 ** 5 and part_ok(code)
    assert n <= (4 if tier() == "quick" else 5)   # quick: the depth-5 chain project/workspace/<id>(project)/workspace/<id> is covered by h_nested
    assert (n == 1 and code < 6) or (n == 2 and code < 36) or (n == 3 and code < 216) or (n == 4 and code < 1296) or n == 5
    fresh_path()
    n = ci(n, 1, 5)
    # decode the layout digit by digit: six solver decisions per level (symbolic % and // by a constant) instead of a linear scan over 6**n codes
    kinds, projs, c = [], [], code
    for _i in range(n):
        d_ = ci(c % 6, 0, 5)
        c = c // 6
        kinds.append(d_ % 3)
        projs.append(d_ // 3 == 1)
    if not _valid(kinds, projs):
        discard("layout outside the property (id-like name not below a project's workspace)")
    same = cb(same)
    if same and sum(1 for k in kinds if k == 2) < 2:
        discard("same-id variant needs two id-named levels")
    with nt():
        problems = _layout_case(kinds, projs, same)
    reached()
    assert not problems


def h_nested(p4: bool, same: bool, z: int):
    """the one depth-5 chain with two id-named levels: project/workspace/<id>(itself a project)/workspace/<id'>; same: id' == id"""
    assert z == 0
    fresh_path()
    p4, same = cb(p4), cb(same)
    with nt():
        problems = _layout_case([0, 1, 2, 1, 2], [True, False, True, False, p4], same)
    reached()
    assert not problems


def _symlink_case(target_kind, deep, rel):
    """a job directory that is a symlink (to a plain directory elsewhere, or to a job of ANOTHER project): the job belongs to the project
    whose workspace holds the link"""
    problems = []
    with SL.Scratch() as sc:
        a = signac.init_project(os.path.join(sc.root, "A"))
        b = signac.init_project(os.path.join(sc.root, "B"))
        sp = {"x": 1}
        jid = signac.job.calc_id(sp)
        if target_kind == 0:
            tgt = os.path.join(sc.root, "storage", "blob")
            os.makedirs(tgt)
            with open(os.path.join(tgt, "signac_statepoint.json"), "w") as f:
                json.dump(sp, f)
        else:
            tgt = b.open_job(sp).init().path
        os.makedirs(os.path.join(tgt, "sub"), exist_ok=True)
        link = os.path.join(a.workspace, jid)
        os.symlink(tgt, link)
        q = os.path.join(link, "sub") if deep else link
        old = os.getcwd()
        try:
            if rel:
                os.chdir(sc.root)
                q = os.path.relpath(q, sc.root)
            try:
                j = signac.get_job(q)
                got = (j.id, j.project.path)
            except LookupError:
                got = None
            except Exception as e:  # noqa
                got = ("error", type(e).__name__)
            if got != (jid, a.path):
                problems.append(("get_job through a symlinked job directory", got, (jid, a.path)))
            try:
                gp = signac.get_project(q).path
            except LookupError:
                gp = None
            if gp != a.path:
                problems.append(("get_project through a symlinked job directory", gp, a.path))
            # the linked job is a job of project A for every access path: iteration, len, membership, full id, unique prefix
            fresh = signac.get_project(a.path, search=False)
            ids = sorted(j.id for j in fresh)
            if ids != [jid] or len(fresh) != 1:
                problems.append(("a job whose directory is a symbolic link is not listed", ids, len(fresh)))
            if fresh.open_job(sp) not in fresh:
                problems.append(("membership of the linked job",))
            try:
                if fresh.open_job(id=jid[:5]).id != jid or fresh.open_job(id=jid).statepoint() != sp:
                    problems.append(("linked job by id / prefix",))
            except Exception as e:  # noqa
                problems.append(("linked job by id / prefix raised", type(e).__name__))
        finally:
            os.chdir(old)
    return problems


def h_symlink(target_kind: int, deep: bool, rel: bool):
    assert 0 <= target_kind <= 1
    fresh_path()
    target_kind, deep, rel = ci(target_kind, 0, 1), cb(deep), cb(rel)
    with nt():
        problems = _symlink_case(target_kind, deep, rel)
    reached()
    assert not problems


def _init_case(doc, cache, jobs, extra, mode):
    """init_project on an existing project returns it unchanged; mode 1: via relative path / cwd; mode 2: fresh sub-directory below a project"""
    problems = []
    with SL.Scratch() as sc:
        root = os.path.join(sc.root, "proj")
        pr = signac.init_project(root)
        if jobs:
            for i in range(jobs):
                j = pr.open_job({"a": i}).init()
                j.document["d"] = i
        if doc:
            pr.document["pd"] = {"x": 1}
        if cache:
            pr.open_job({"a": 9}).init()
            pr.update_cache()
        if extra:
            with open(os.path.join(root, ".signac", "config"), "a") as f:
                f.write("statepoint_cache_miss_warning_threshold=7   # hand-edited, not in configobj's own formatting\n")
        before = SL.snap(root, True)
        old = os.getcwd()
        try:
            if mode == 0:
                p2 = signac.init_project(root)
            elif mode == 1:
                os.chdir(root)
                p2 = signac.init_project()
            else:
                sub = os.path.join(root, "workspace", "nested")
                os.makedirs(sub)
                before = SL.snap(root, True)
                p2 = signac.init_project(sub)
                if p2.path != sub:
                    problems.append(("init_project in a sub-directory returned", p2.path))
                after = SL.snap(root, True)
                new = {k: v for k, v in after.items() if not k.startswith("workspace/nested")}
                old_ = {k: v for k, v in before.items() if not k.startswith("workspace/nested")}
                if new != old_:
                    problems.append(("initialising a nested project changed the enclosing project",))
                # idempotent for the nested one as well
                s1 = SL.snap(sub, True)
                p3 = signac.init_project(sub)
                if SL.snap(sub, True) != s1 or p3.path != sub:
                    problems.append(("second init_project of the nested project changed it",))
                return problems
        finally:
            os.chdir(old)
        if p2.path != root:
            problems.append(("init_project returned a different project", p2.path, root))
        after = SL.snap(root, True)
        if after != before:
            problems.append(("init_project changed an existing project", sorted(k for k in set(after) | set(before) if after.get(k) != before.get(k))[:4]))
        if extra and p2.config.get("statepoint_cache_miss_warning_threshold") not in ("7", 7):
            problems.append(("configuration reset", dict(p2.config)))
    return problems


def h_init(doc: bool, cache: bool, jobs: int, extra: bool, mode: int):
    assert 0 <= jobs <= 2 and 0 <= mode <= 2
    fresh_path()
    doc, cache, jobs, extra, mode = cb(doc), cb(cache), ci(jobs, 0, 2), cb(extra), ci(mode, 0, 2)
    with nt():
        problems = _init_case(doc, cache, jobs, extra, mode)
    reached()
    assert not problems


# ---------------------------------------------------------------------------------------- names that merely CONTAIN an id
PRE = ["", "x", "0", "ab"]
SUF = ["", ".bak", "_backup", "0", "abcdef01", "/", "^"]   # 'abcdef01': a 40-hex name (a git object id); '/': trailing separator in the query


def _idlike_case(name, where, deep, rel, sibling):
    """a directory whose name contains (but is not) a job id: where 0 = child of the workspace, 1 = sub-directory inside a real job's
    directory, 2 = plain sub-directory of the project. Only exactly-id-named workspace children are job directories, so the answer is
    the real enclosing job (where 1) or LookupError - never a job whose directory does not contain the path."""
    problems = []
    with SL.Scratch() as sc:
        pr = signac.init_project(os.path.join(sc.root, "proj"))
        real = pr.open_job({"x": 1}).init()
        jid = real.id
        nm = name.replace("@", jid)
        if "^" in nm:
            nm = nm.replace("^", "").upper()      # the same 32 hex characters in UPPER case (e.g. an upper-case MD5 digest used as a directory name)
            if nm == jid:
                nm = "ABCDEF" + jid[6:]
        is_id = nm.rstrip("/") == jid
        if where == 0:
            if not sibling and not is_id:
                real.remove()
            d = os.path.join(pr.workspace, nm)
        elif where == 1:
            d = os.path.join(real.path, "sub", nm)
        else:
            d = os.path.join(pr.path, "plain", nm)
        os.makedirs(os.path.join(d, "data"), exist_ok=True)
        q = os.path.join(d, "data") if deep else d
        if nm.endswith("/") and not deep:
            q = d if d.endswith("/") else d + "/"
        if where == 1 or (where == 0 and is_id):
            want = (jid, pr.path, os.path.realpath(real.path))
        elif where == 2 and is_id:
            want = "outside"   # an id-named directory that is not a workspace child: excluded by the property
        else:
            want = None
        old = os.getcwd()
        try:
            if rel:
                os.chdir(sc.root)
                q = os.path.relpath(q, sc.root) + ("/" if q.endswith("/") else "")
            try:
                j = signac.get_job(q)
                got = (j.id, j.project.path, os.path.realpath(j.path))
            except LookupError:
                got = None
            except Exception as e:  # noqa
                got = ("error", type(e).__name__, str(e)[:80])
            if want != "outside" and got != want:
                problems.append(("get_job", nm if len(nm) < 80 else nm[:80], where, deep, got, want))
            if got is not None and not isinstance(got[0], str):
                pass
            elif got is not None and not os.path.realpath(os.path.abspath(q)).startswith(got[2]) and want != "outside":
                problems.append(("get_job returned a job whose directory does not contain the path", got))
            try:
                gp = signac.get_project(q).path
            except LookupError:
                gp = None
            if gp != pr.path:
                problems.append(("get_project", gp, pr.path))
        finally:
            os.chdir(old)
    return problems


def h_idlike(pre: int, suf: int, where: int, deep: bool, rel: bool, sibling: bool):
    assert 0 <= pre < len(PRE) and 0 <= suf < len(SUF) and 0 <= where <= 2 and part_ok(pre)
    fresh_path()
    pre, suf, where, deep, rel, sibling = ci(pre, 0, len(PRE) - 1), ci(suf, 0, len(SUF) - 1), ci(where, 0, 2), cb(deep), cb(rel), cb(sibling)
    if SUF[suf] == "/" and deep:
        discard("trailing separator only makes sense on the queried directory itself")
    with nt():
        problems = _idlike_case(PRE[pre] + "@" + SUF[suf], where, deep, rel, sibling)
    reached()
    assert not problems


def _legacy_between_case(where, rc, depth, rel):
    """a left-over configuration file of the pre-2.0 layout (signac.rc / .signacrc, e.g. an archived old study) in a plain sub-directory
    BETWEEN the queried directory and the enclosing initialised project: the nearest enclosing INITIALISED project is still the answer"""
    problems = []
    with SL.Scratch() as sc:
        pr = signac.init_project(os.path.join(sc.root, "P"))
        job = pr.open_job({"x": 1}).init()
        base = os.path.join(pr.path, "archive") if where == 0 else os.path.join(job.path, "imported")
        holder = os.path.join(base, "study2019")
        os.makedirs(holder)
        with open(os.path.join(holder, ["signac.rc", ".signacrc"][rc % 2]), "w") as f:
            f.write(["project = old\n", "project = old\nschema_version = 1\nworkspace_dir = ws\n"][rc // 2])
        q = holder
        for i in range(depth):
            q = os.path.join(q, "d%d" % i)
        os.makedirs(q, exist_ok=True)
        old = os.getcwd()
        try:
            if rel:
                os.chdir(pr.path)
                q = os.path.relpath(q, pr.path)
            try:
                got = signac.get_project(q).path
            except LookupError:
                got = None
            except Exception as e:  # noqa
                got = ("error", type(e).__name__, str(e)[:80])
            if got != pr.path:
                problems.append(("get_project below a directory with a legacy configuration file", got, pr.path))
            if where == 1:
                try:
                    j = signac.get_job(q)
                    gj = (j.id, j.project.path)
                except LookupError:
                    gj = None
                except Exception as e:  # noqa
                    gj = ("error", type(e).__name__, str(e)[:80])
                if gj != (job.id, pr.path):
                    problems.append(("get_job below a directory with a legacy configuration file", gj))
        finally:
            os.chdir(old)
    return problems


def h_legacy_between(where: int, rc: int, depth: int, rel: bool):
    assert 0 <= where <= 1 and 0 <= rc <= 3 and 0 <= depth <= 2
    fresh_path()
    where, rc, depth, rel = ci(where, 0, 1), ci(rc, 0, 3), ci(depth, 0, 2), cb(rel)
    with nt():
        problems = _legacy_between_case(where, rc, depth, rel)
    reached()
    assert not problems


def _legacy_above_case(rc, depth, entry, rel):
    """an ANCESTOR holds a pre-2.0 configuration file and there is no current project at or above the queried directory:
    search=False looks at the exact directory only (LookupError, not the ancestor's IncompatibleSchemaVersion), and init_project
    creates a project there"""
    problems = []
    with SL.Scratch() as sc:
        top = os.path.join(sc.root, "old")
        os.makedirs(top)
        with open(os.path.join(top, ["signac.rc", ".signacrc"][rc % 2]), "w") as f:
            f.write(["project = old\n", "project = old\nschema_version = 1\n"][rc // 2])
        q = top
        for i in range(depth + 1):
            q = os.path.join(q, "d%d" % i)
        os.makedirs(q)
        before = SL.snap(top)
        old = os.getcwd()
        try:
            arg = q
            if rel:
                os.chdir(top)
                arg = os.path.relpath(q, top)
            if entry == 0:
                try:
                    signac.get_project(arg, search=False)
                    problems.append(("a plain directory was opened as a project",))
                except LookupError:
                    pass
                except Exception as e:  # noqa
                    problems.append(("get_project(search=False) on a plain directory below a legacy project", type(e).__name__))
                if SL.snap(top) != before:
                    problems.append(("the query changed the tree",))
            else:
                try:
                    pr = signac.init_project(arg)
                    if os.path.realpath(pr.path) != os.path.realpath(q):
                        problems.append(("init_project returned another project", pr.path))
                    if not os.path.isfile(os.path.join(q, ".signac", "config")):
                        problems.append(("init_project did not create the project",))
                    pr2 = signac.init_project(arg)
                    if os.path.realpath(pr2.path) != os.path.realpath(q):
                        problems.append(("second init_project returned another project",))
                except Exception as e:  # noqa
                    problems.append(("init_project in a plain directory below a legacy project raised", type(e).__name__, str(e)[:80]))
        finally:
            os.chdir(old)
    return problems


def h_legacy_above(rc: int, depth: int, entry: int, rel: bool):
    assert 0 <= rc <= 3 and 0 <= depth <= 1 and 0 <= entry <= 1
    fresh_path()
    rc, depth, entry, rel = ci(rc, 0, 3), ci(depth, 0, 1), ci(entry, 0, 1), cb(rel)
    with nt():
        problems = _legacy_above_case(rc, depth, entry, rel)
    reached()
    assert not problems


def extra_checks(tier_):
    """E3: z3 builds directory names from the LIVE job id regular expression - names that contain an id-like run without being one
    (non-empty prefix / non-empty suffix / two adjacent runs / upper-case look-alike) - and every witness is replayed through the real
    get_job / get_project on a real layout. The language queries themselves (inclusion in 'exactly 32 lowercase hex') are discharged by z3."""
    import z3
    from vflib import re2z3
    out = {"evaluations": 0, "distinct": 0, "queries": 0, "solver_s": 0.0, "violations": [], "errors": [], "samples": [], "info": {}}
    q = re2z3.Q()
    try:
        ID = re2z3.lang_for(P.JOB_ID_REGEX, "fullmatch")
    except NotImplementedError as e:
        out["errors"].append(f"JOB_ID_REGEX not translatable: {e}")
        return out
    out["info"]["JOB_ID_REGEX"] = P.JOB_ID_REGEX.pattern
    safe = z3.Union(z3.Range("a", "z"), z3.Range("0", "9"), z3.Range("A", "Z"), z3.Re("."), z3.Re("_"), z3.Re("-"))   # file-name-safe alphabet
    S1, S0 = z3.Plus(safe), z3.Star(safe)
    hexd = z3.Union(z3.Range("0", "9"), z3.Range("a", "f"))
    nonhex = z3.Union(z3.Range("g", "z"), z3.Range("A", "Z"), z3.Re("."), z3.Re("_"), z3.Re("-"))
    fams = {
        "id followed by a non-hex tail": z3.Concat(ID, nonhex, S0),
        "id preceded by a non-hex head": z3.Concat(S0, nonhex, ID),
        "id embedded in a longer hex run (40 hex)": z3.Concat(z3.Loop(hexd, 4, 4), ID, z3.Loop(hexd, 4, 4)),
        "two adjacent ids (64 hex)": z3.Concat(ID, ID),
        "33 hex": z3.Concat(ID, hexd),
    }
    hex32 = z3.Loop(hexd, 32, 32)
    ok, w = q.included("live id language subset-of exactly-32-lowercase-hex", ID, hex32)
    ok2, w2 = q.included("exactly-32-lowercase-hex subset-of live id language", hex32, ID)
    if ok is not True or ok2 is not True:
        out["errors"].append(f"JOB_ID_REGEX is not 'exactly 32 lowercase hex' any more ({w!r} / {w2!r}): the oracle of the C19 layouts must be revisited")
    for fam, L in fams.items():
        okn, wn = q.included(f"family '{fam}' is disjoint from the id language (witness = a name to replay)", L, ID)
        # 'included' = every name of the family IS an id -> family useless; we need a witness that is NOT an id
        if okn is not False:
            out["errors"].append(f"family {fam!r}: no witness ({okn})")
            continue
        for where in (0, 1):
            for deep in (False, True):
                for sibling in (True, False):
                    try:
                        problems = _idlike_case(wn, where, deep, False, sibling)
                    except Exception as e:  # noqa
                        out["errors"].append(f"replay of witness {wn!r} crashed: {type(e).__name__}: {e}")
                        continue
                    out["evaluations"] += 1
                    if problems:
                        out["violations"].append({"name": "idlike_" + fam.split()[0] + "_%d%d%d" % (where, deep, sibling), "msg": f"{fam}: name {wn!r} where={where} deep={deep}: {problems[0]}",
                                                  "call": f"_idlike_case({wn!r}, {where}, {deep}, False, {sibling})", "witness": repr(wn)})
    out["evaluations"] += q.n
    out["distinct"] = out["evaluations"]
    out["queries"] = q.n
    out["solver_s"] = q.t
    out["samples"] = q.log
    return out


HARNESSES = [
    dict(name="h_layout", timeout=(900, 3000), parts=(16, 32), unblock=True),
    dict(name="h_nested", timeout=(200, 400), unblock=True),
    dict(name="h_symlink", timeout=(200, 400), unblock=True),
    dict(name="h_init", timeout=(300, 600), unblock=True),
    dict(name="h_idlike", timeout=(300, 600), parts=(4, 4), unblock=True),
    dict(name="h_legacy_between", timeout=(300, 600), unblock=True),
    dict(name="h_legacy_above", timeout=(300, 600), unblock=True),
]
