"""C04 — re-key / move / clone carry everything and never clobber (E2: real Job/Project code on MemFS next to a plain model;
symbolic: old state point, edit route and value, destination state, handle provenance, sibling kind, payload)."""
import copy, json
from vflib import memfs, refs, ws
from vflib.hutil import pick, reached, part_ok, kf_filter, spy, tier, fresh_path, nt, ci, cb
import signac.job as J
import signac.project as P
from signac.errors import DestinationExistsError

E2 = True
spy(J._StatePointDict, "_save", "signac.job._StatePointDict._save")
spy(J.Job, "update_statepoint", "signac.job.Job.update_statepoint")
spy(J.Job, "move", "signac.job.Job.move")
spy(P.Project, "clone", "signac.project.Project.clone")
spy(J.Job, "init", "signac.job.Job.init")
CODE = ["signac.job._StatePointDict._save (re-key protocol)", "signac.job.Job.statepoint setter / update_statepoint / move / init / _initialize_lazy_properties / cached_statepoint", "signac.project.Project.clone / open_job / _register"]
BOUNDS = {"state points": "closed universe {a:0|1} x {b absent|0} plus nested {n:{c:0|1}} and list {l:[0|1,1]} variants", "routes": "item set, attribute set, add key, delete key, nested item set, list element set, whole assignment, update_statepoint(overwrite T/F), multi-key update, item set changing only the JSON type (1 -> 1.0, 0 -> False)",
          "destination": "absent / initialised with its own document and file / empty directory / a regular file occupying the destination path; source initialised or a handle only", "handles": "by state point, by id after restart, from iteration; sibling none / copy.copy / deepcopy / pickle round trip",
          "payload": "document {k:1} or none; files f and sub/g or none"}
OUTSIDE = ["edits that differ only by bool/int type (1 -> True): the synced-collection dependency keeps the ==-equal old value (silent no-op)", "cross-device moves (C11)"]
STUBS = ["MemFS for os/shutil/open/uuid in signac.job, signac.project, signac._utility, synced_collections JSON backend (validated against the real FS by ./vf selftest)",
         "Project objects are built without Project.__init__ (configobj not on MemFS)"]
ASSUMPTIONS = ["POSIX rename semantics as modelled by MemFS"]

BASES = [{"a": 0}, {"a": 1}, {"a": 0, "b": 0}, {"a": 1, "b": 0}, {"a": 0, "n": {"c": 0}}, {"a": 0, "l": [0, 1]}]


def _edit(base, route, v):
    """(op, args, new state point) of the requested edit, or None if the route does not apply to this base"""
    new = copy.deepcopy(base)
    if route == 0:
        new["a"] = v
        return "sp_set", ("a", v), new
    if route == 1:
        new["a"] = v
        return "sp_attr_set", ("a", v), new
    if route == 2:
        new["b"] = 0
        return "sp_set", ("b", 0), new
    if route == 3:
        if "b" not in base:
            return "sp_del", ("b",), None
        del new["b"]
        return "sp_del", ("b",), new
    if route == 4:
        if "n" not in base:
            return None
        new["n"]["c"] = v
        return "sp_path_set", (("n", "c"), v), new
    if route == 5:
        if "l" not in base:
            return None
        new["l"][0] = v
        return "sp_path_set", (("l", 0), v), new
    if route == 6:
        new = {"a": v}
        return "sp_assign", (new,), new
    if route == 7:
        new["a"] = v
        return "sp_update", ({"a": v}, True), new
    if route == 8:
        return "sp_update", ({"a": v, "b": 0}, False), None
    if route == 10:  # item set that changes only the JSON TYPE of the value (1 -> 1.0, 0 -> False): a different state point, a different id
        tv = 1.0 if base.get("a") == 1 else False
        new["a"] = tv
        return "sp_set", ("a", tv), new
    if route == 9:   # multi-key update whose LATER key clashes / whose intermediate state may collide: must be all-or-nothing
        new["b"] = 0
        new["a"] = v
        return "sp_update", ({"b": 0, "a": v}, bool(v)), (new if (v or base.get("a") == v) else None)
    raise ValueError(route)


def stale_cached_statepoint(route):
    """known-finding predicate (whole harness h_rekey_follow): cached_statepoint is not refreshed by a re-key"""
    return True


def _rekey_case(bi, route, v, dst_state, prov, sib, payload):
    base = BASES[bi]
    ed = _edit(base, route, v)
    if ed is None:
        return None
    op, args, new = ed
    s = ws.Sim(paths=("/p",))
    try:
        doc = {"k": 1} if payload & 1 else None
        files = {"f": b"F", "sub/g": b"G"} if payload & 2 else None
        s.add_job("/p", base, doc=doc, files=files)
        s.add_job("/p", {"a": 5}, doc={"other": 1}, files={"o": b"O"})
        src_uninit = dst_state == 4      # state 4: the SOURCE job is a handle only (never initialised on disk)
        if src_uninit:
            if prov != 0 or payload != 0:
                return None
            s.model.ws("/p").pop(ws.key(base), None)
            s.fs.delete_raw("/p/workspace/" + refs.canon_id(base))
        if new is not None and ws.key(new) != ws.key(base):
            if dst_state == 1:
                s.add_job("/p", new, doc={"dst": 1}, files={"d": b"D"})
            elif dst_state == 2:
                s.fs.put_dir("/p/workspace/" + refs.canon_id(new))
            elif dst_state == 3:
                s.fs.put("/p/workspace/" + refs.canon_id(new), b"a regular file occupies the destination path")
            elif dst_state == 5:
                # a directory with a document and data but WITHOUT state point file (a job whose state point file was lost: repair() could restore it)
                s.fs.put("/p/workspace/" + refs.canon_id(new) + "/signac_job_document.json", b'{"precious": 1}')
                s.fs.put("/p/workspace/" + refs.canon_id(new) + "/nested/deeper/result.bin", b"RESULT")
        elif dst_state not in (0, 4):
            return None  # destination states only matter when the id changes
        if dst_state == 5 and src_uninit:
            return None
        before = s.fs.snapshot("/p/workspace")
        if prov == 0:
            s.open(0, "/p", base)
        elif prov == 1:
            s.restart("/p")
            s.open(0, "/p", base, by_id=True)
        else:
            s.restart("/p")
            j = [j for j in s.pr["/p"] if j.id == refs.canon_id(base)][0]
            s.handles[0] = ws.Handle(j, base, "/p")
        if sib == 1:
            s.apply(0, "copy", "copy")   # deliberately before the handle's first state point access
        elif sib == 2:
            _ = s.handles[0].jobs[0].statepoint()  # an independent handle can only 'work on its own' if it knows its state point
            s.apply(0, "copy", "deepcopy", 1)
        elif sib == 3:
            s.apply(0, "copy", "pickle", 1)
        if sib == 1:
            # touch the lazy fields through the sibling so that stale caches would show (the document only for an initialised job:
            # asking for the document initialises the job by design)
            _ = s.handles[0].jobs[1].path
            if not src_uninit:
                _ = s.handles[0].jobs[1].document
        blocked = new is not None and ws.key(new) != ws.key(base) and dst_state in (3, 5)
        if blocked:
            # the directory cannot be moved onto a regular file: the change must fail with an OSError and roll back completely
            job = s.handles[0].jobs[-1]
            try:
                s.apply(0, op, *args)
            except Exception:  # noqa
                pass
            raised = bool(s.errors) and s.errors[-1][-1] is not None
            s.errors.clear()
            s.handles[0].sp = copy.deepcopy(base)
            s.model.ws("/p").pop(ws.key(new), None)
            if ws.key(base) not in s.model.ws("/p"):
                s.model.ws("/p")[ws.key(base)] = {"sp": copy.deepcopy(base), "doc": doc, "files": dict(files or {})}
            after = s.fs.snapshot("/p/workspace")
            ok = raised and after == before and s.handles_follow(0)
            return ok, list(s.errors) + ([] if ok else [("blocked destination", raised, sorted(set(after) ^ set(before))[:4])])
        ok = s.apply(0, op, *args)
        collided = new is not None and ws.key(new) != ws.key(base) and dst_state == 1
        if collided:
            ok = ok and s.fs.snapshot("/p/workspace") == before  # both jobs byte-identical on disk
        else:
            if dst_state == 2 and new is not None:
                pass
            ok = ok and s.agree("/p")
        ok = ok and s.handles_follow(0) if not collided else ok
        if ok and not collided:
            ok = s.session_agree("/p")      # the running session (in-memory state point cache) hands out the same, type-exact state points by id
        if ok and not collided and new is not None and (doc is not None):
            # the document handle of every live copy describes the new job
            for j in s.handles[0].jobs:
                ok = ok and dict(j.document()) == doc and j.document.filename == j.path + "/signac_job_document.json"
        if ok and src_uninit and not collided:
            # a handle whose state point was edited BEFORE the job existed on disk initialises the job under the new id
            ok = s.apply(0, "init") and s.agree("/p") and s.handles_follow(0)
        if ok and sib in (2, 3) and not collided:
            # independent handles (deepcopy / pickle) still work on their own: they keep denoting the old state point
            ok = s.apply(1, "init") and s.agree("/p")
        errs = list(s.errors)
    finally:
        s.close()
    return ok, errs


def h_rekey(bi: int, route: int, v: int, dst_state: int, prov: int, sib: int, payload: int):
    assert 0 <= bi < 6 and 0 <= route <= 10 and 0 <= v <= 1 and 0 <= dst_state <= 5 and 0 <= prov <= 2 and 0 <= sib <= 3 and 0 <= payload <= 3 and part_ok(route)
    assert tier() != "quick" or (payload in (0, 3) and prov != 2)
    fresh_path()
    bi, route, v, dst_state, prov, sib, payload = ci(bi, 0, 5), ci(route, 0, 10), ci(v, 0, 1), ci(dst_state, 0, 5), ci(prov, 0, 2), ci(sib, 0, 3), ci(payload, 0, 3)
    with nt():
        r = _rekey_case(bi, route, v, dst_state, prov, sib, payload)
    if r is None:
        return
    reached()
    assert r[0]


def h_rekey__reach(bi: int, route: int, v: int, dst_state: int, prov: int, sib: int, payload: int):
    assert 0 <= bi < 6 and 0 <= route <= 10 and 0 <= v <= 1 and 0 <= dst_state <= 4 and 0 <= prov <= 2 and 0 <= sib <= 3 and 0 <= payload <= 3
    bi, route, v, dst_state = ci(bi, 0, 5), ci(route, 0, 10), ci(v, 0, 1), ci(dst_state, 0, 2)
    with nt():
        base = BASES[bi]
        ed = _edit(base, route, v)
        hit = ed is not None and ed[2] is not None and ws.key(ed[2]) != ws.key(base) and dst_state == 1
    assert not hit  # twin: a colliding re-key is reachable


def _move_case(bi, kind, src_init, dst_state, payload, sib, then=0):
    base = BASES[bi]
    s = ws.Sim(paths=("/p", "/q"))
    try:
        doc = {"k": 1} if payload & 1 else None
        files = {"f": b"F", "sub/g": b"G"} if payload & 2 else None
        if src_init:
            s.add_job("/p", base, doc=doc, files=files)
        s.add_job("/p", {"a": 5}, doc={"other": 1})
        s.add_job("/q", {"a": 6}, files={"o": b"O"})
        if dst_state == 1:
            s.add_job("/q", base, doc={"dst": 1}, files={"d": b"D"})
        elif dst_state == 2:
            s.fs.put_dir("/q/workspace/" + refs.canon_id(base))
        before_p, before_q = s.fs.snapshot("/p/workspace"), s.fs.snapshot("/q/workspace")
        s.open(0, "/p", base)
        if sib == 1:
            s.apply(0, "copy", "copy")
        if src_init and payload & 1:
            _ = s.handles[0].jobs[-1].document()     # the document handle exists BEFORE the move / clone (lazy fields must be refreshed)
        if kind == 1 and dst_state == 2 and src_init:
            # clone into an existing empty directory: either outcome is acceptable as long as nothing is clobbered
            # (shutil.copytree refuses an existing directory -> DestinationExistsError, everything untouched)
            try:
                s.pr["/q"].clone(s.handles[0].jobs[-1])
                return False, ["clone into an empty directory succeeded: model does not cover this"]
            except DestinationExistsError:
                return s.fs.snapshot("/p/workspace") == before_p and s.fs.snapshot("/q/workspace") == before_q, []
        ok = s.apply(0, "move" if kind == 0 else "clone", "/q")
        failed = (not src_init) or dst_state == 1
        if failed:
            ok = ok and s.fs.snapshot("/p/workspace") == before_p and (s.fs.snapshot("/q/workspace") == before_q)
        else:
            ok = ok and s.agree("/p") and s.agree("/q")
            if kind == 0:
                ok = ok and s.handles_follow(0)
                # the moved handle keeps working in the destination project: follow-up operations through it
                if then == 1:
                    ok = ok and s.apply(0, "sp_set", "a", 7) and s.agree("/p") and s.agree("/q") and s.handles_follow(0)
                elif then == 2:
                    ok = ok and s.apply(0, "init") and s.apply(0, "doc_set", "m", 1) and s.agree("/p") and s.agree("/q")
                elif then == 3:
                    ok = ok and s.apply(0, "move", "/p") and s.agree("/p") and s.agree("/q") and s.handles_follow(0)
            else:
                # clone: source untouched, copy independent: a later edit of the copy does not reach the source
                ok = ok and s.fs.snapshot("/p/workspace") == before_p
                s.open(2, "/q", base)
                ok = ok and s.apply(2, "doc_set", "z", 9) and s.fs.snapshot("/p/workspace") == before_p and s.agree("/q")
        errs = list(s.errors)
    finally:
        s.close()
    return ok, errs


def h_move_clone(bi: int, kind: int, src_init: bool, dst_state: int, payload: int, sib: int, then: int):
    assert 0 <= bi < 6 and 0 <= kind <= 1 and 0 <= dst_state <= 2 and 0 <= payload <= 3 and 0 <= sib <= 1 and 0 <= then <= 3 and (kind == 0 or then == 0) and part_ok(then + kind)
    fresh_path()
    bi, kind, src_init, dst_state, payload, sib, then = ci(bi, 0, 5), ci(kind, 0, 1), cb(src_init), ci(dst_state, 0, 2), ci(payload, 0, 3), ci(sib, 0, 1), ci(then, 0, 3)
    with nt():
        r = _move_case(bi, kind, src_init, dst_state, payload, sib, then)
    reached()
    assert r[0]


TYPED = [0, 1, 2, None, "a", 1.5, [0], {"c": 0}, {"d": 1}, {"c": 0, "d": 1}, 1.0, True]   # 8, 9: mappings that share no / one sub-key with {"c": 0}; 10, 11: ==-equal to 1 but another JSON type


def _update_case(i0, i1, extra, overwrite):
    """update_statepoint(update, overwrite) over typed values: without overwrite -> KeyError and no effect iff some shared key has a different value"""
    v0, v1 = TYPED[i0], TYPED[i1]
    base = {"a": copy.deepcopy(v0), "z": 0}
    upd = {"a": copy.deepcopy(v1)}
    if extra:
        upd["y"] = 1
    s = ws.Sim(paths=("/p",))
    try:
        s.add_job("/p", base, doc={"k": 1}, files={"f": b"F"})
        before = s.fs.snapshot("/p/workspace")
        s.open(0, "/p", base)
        if v0 == v1 and not refs.same_json(v0, v1):
            # ==-equal values of different JSON type: without overwrite the existing key's value must not be altered (no effect at all);
            # with overwrite the current code keeps the old value too (an observation outside the property, DESIGN 6.4): not judged
            if overwrite:
                return True, []
            try:
                s.handles[0].jobs[0].update_statepoint(copy.deepcopy(upd), overwrite=False)
            except KeyError:
                pass
            job_ = s.handles[0].jobs[0]
            raw = s.fs.get(job_.path + "/signac_statepoint.json")
            same_a = raw is not None and refs.same_json(json.loads(raw)["a"], v0) and refs.same_json(job_.statepoint()["a"], v0)
            return same_a, [("update_statepoint without overwrite altered an existing key's value (type)", raw)]
        ok = s.apply(0, "sp_update", upd, overwrite)
        differs = not refs.same_json(v0, v1)
        if differs and not overwrite:
            ok = ok and s.fs.snapshot("/p/workspace") == before and s.handles[0].jobs[0].id == refs.canon_id(base)
        else:
            ok = ok and s.agree("/p") and s.handles_follow(0)
        errs = list(s.errors)
    finally:
        s.close()
    return ok, errs


def collection_to_none(i0, i1, overwrite):
    """known-finding predicate: a list / mapping value is replaced by None through whole assignment (update_statepoint(overwrite=True))"""
    return bool(overwrite) and i0 in (6, 7, 8, 9) and i1 == 3


def h_update_sp(i0: int, i1: int, extra: bool, overwrite: bool):
    assert 0 <= i0 < 12 and 0 <= i1 < 12
    assert kf_filter("C04.collection_to_none", collection_to_none(i0, i1, overwrite))
    fresh_path()
    i0, i1, extra, overwrite = ci(i0, 0, 11), ci(i1, 0, 11), cb(extra), cb(overwrite)
    with nt():
        r = _update_case(i0, i1, extra, overwrite)
    reached()
    assert r[0]


def _alias_case(bi, v, mut, same_session, pre=False):
    """after job.statepoint = d (or update_statepoint(d)), later mutation of the caller's d must not change what the project reports for the id"""
    base = BASES[bi]
    s = ws.Sim(paths=("/p",))
    try:
        s.add_job("/p", base, doc={"k": 1})
        s.open(0, "/p", base)
        job = s.handles[0].jobs[0]
        if mut == 3 and not pre:
            r2 = _alias_case(bi, v, mut, same_session, True)     # the same with a handle whose state point object already exists
            if not r2[0]:
                return r2
            memfs.install(s.fs)
        if mut == 3:
            if pre:
                _ = job.statepoint()
            # the assigned mapping differs from the job's state point only in the JSON TYPE of values (1 -> 1.0 / True, nested too). Whether
            # the synced dict adopts the new spelling or keeps the ==-equal old one (it keeps it, see DESIGN 6.4) is not judged here:
            # whatever the handle reports afterwards must hash to its id, and the session's and a later session's by-id view must agree with it
            def retype(x):
                if isinstance(x, dict):
                    return {k: retype(y) for k, y in x.items()}
                if isinstance(x, list):
                    return [retype(y) for y in x]
                if isinstance(x, bool) or not isinstance(x, int):
                    return x
                return float(x) if v == 0 else (bool(x) if x in (0, 1) else float(x))
            job.statepoint = retype(copy.deepcopy(base))
            now = job.statepoint()
            ok = refs.canon_id(now) == job.id and refs.same_json(dict(job.cached_statepoint), now)
            if not same_session:
                s.pr["/p"].update_cache()
                s.restart("/p")
            other = s.pr["/p"].open_job(id=job.id)
            ok = ok and refs.same_json(other.statepoint(), now) and refs.same_json(dict(other.cached_statepoint), now)
            ok = ok and [refs.canon_id(dict(j.cached_statepoint)) == j.id for j in s.pr["/p"]].count(False) == 0
            obs, facts = ws.observe(s.fs, "/p")
            return (ok and facts["check"] == [] and job.id in obs), []
        d = {"a": v + 2, "l": [0, {"x": 0}]}
        want = copy.deepcopy(d)
        job.statepoint = d
        if mut == 0:
            d["a"] = 99
        elif mut == 1:
            d["l"].append(7)
        else:
            d["l"][1]["x"] = 5
        if not same_session:
            s.restart("/p")
        other = s.pr["/p"].open_job(id=refs.canon_id(want))
        ok = refs.same_json(other.statepoint(), want) and refs.same_json(dict(other.cached_statepoint), want) and refs.same_json(job.statepoint(), want) \
            and refs.same_json(dict(job.cached_statepoint), want) and job.id == refs.canon_id(want)
        obs, facts = ws.observe(s.fs, "/p")
        ok = ok and facts["check"] == [] and refs.canon_id(want) in obs
    finally:
        s.close()
    return ok, []


def h_assign_alias(bi: int, v: int, mut: int, same_session: bool):
    assert 0 <= bi < 6 and 0 <= v <= 1 and 0 <= mut <= 3
    fresh_path()
    bi, v, mut, same_session = ci(bi, 0, 5), ci(v, 0, 1), ci(mut, 0, 3), cb(same_session)
    with nt():
        r = _alias_case(bi, v, mut, same_session)
    reached()
    assert r[0]


# ------------------------------------------------------------------------------------------------ refused change, then a successful one
def _refused_then_case(kind, who1, who2, prov):
    """a job handle and a shallow copy; a state point change through one of them is REFUSED (destination exists / invalid key /
    update_statepoint collision); then a change through one of them succeeds: BOTH handles describe the new job, and a document write through
    the other one lands in it"""
    s = ws.Sim(paths=("/p",))
    try:
        s.add_job("/p", {"a": 0}, doc={"k": 1}, files={"f": b"F"})
        s.add_job("/p", {"a": 1}, doc={"dst": 1})
        if prov == 0:
            s.open(0, "/p", {"a": 0})
        else:
            s.restart("/p")
            s.open(0, "/p", {"a": 0}, by_id=True)
        s.apply(0, "copy", "copy")
        h = s.handles[0]

        def through(who):
            if (who == 0) != (h.jobs[-1] is first):
                h.jobs.reverse()
        first = h.jobs[0]
        through(who1)
        if kind == 0:
            ok = s.apply(0, "sp_assign", {"a": 1})
        elif kind == 1:
            ok = s.apply(0, "sp_assign_bad", {"a": 2, "b.c": 3}, "InvalidKeyError")
        else:
            ok = s.apply(0, "sp_update", {"a": 1}, True)
        ok = ok and s.agree("/p") and s.handles_follow(0)
        through(who2)
        ok = ok and s.apply(0, "sp_set", "a", 2) and s.agree("/p") and s.handles_follow(0)
        through(1 - who2)
        ok = ok and s.apply(0, "doc_set", "late", 1) and s.agree("/p") and s.handles_follow(0)
        errs = list(s.errors)
    finally:
        s.close()
    return ok, errs


def h_refused_then(kind: int, who1: int, who2: int, prov: int):
    assert 0 <= kind <= 2 and 0 <= who1 <= 1 and 0 <= who2 <= 1 and 0 <= prov <= 1
    fresh_path()
    kind, who1, who2, prov = ci(kind, 0, 2), ci(who1, 0, 1), ci(who2, 0, 1), ci(prov, 0, 1)
    with nt():
        r = _refused_then_case(kind, who1, who2, prov)
    reached()
    assert r[0]


# ------------------------------------------------------------------------------------------------ E4: clone of a job that contains symbolic links
def _clone_links_case(lk, nested, then):
    """Project.clone on the real file system, job payload with a symbolic link (absolute into the job itself / relative / to a file
    outside the project / dangling): the copy is identical as DATA (what reading every path yields) and INDEPENDENT - writing through
    any path of the copy, or removing / re-keying the source afterwards, never changes what the other one reads"""
    import os, shutil
    import signac
    from vflib import synclib as SL
    problems = []

    def read_all(root):
        out = {}
        for dp, dn, fn in os.walk(root):
            for n in fn + [d for d in dn if os.path.islink(os.path.join(dp, d))]:
                p = os.path.join(dp, n)
                rel = os.path.relpath(p, root)
                try:
                    with open(p, "rb") as f:
                        out[rel] = f.read()
                except OSError as e:
                    out[rel] = ("unreadable", e.errno)
        return out

    with SL.Scratch() as sc:
        a = signac.init_project(os.path.join(sc.root, "A"))
        b = signac.init_project(os.path.join(sc.root, "B"))
        src = a.open_job({"x": 1}).init()
        src.document["d"] = 1
        sub = "sub/" if nested else ""
        SL.put(src.fn(sub + "run_2.txt"), b"RUN2", SL.T_MID)
        SL.put(os.path.join(sc.root, "outside.txt"), b"OUTSIDE", SL.T_MID)
        target = [src.fn(sub + "run_2.txt"), "run_2.txt", os.path.join(sc.root, "outside.txt"), "nowhere"][lk]
        os.symlink(target, src.fn(sub + "latest.txt"))
        before_src = read_all(src.path)
        try:
            dst = b.clone(src)
        except Exception as e:  # noqa
            # refusing is acceptable (a dangling link cannot be copied as data) - but nothing half-made may stay behind
            if os.path.exists(os.path.join(b.workspace, src.id)):
                problems.append(("clone raised but left a directory behind", type(e).__name__))
            return problems
        if lk == 3:
            return problems
        got = read_all(dst.path)
        if got != before_src:
            problems.append(("the clone does not read like the source", sorted(k for k in set(got) | set(before_src) if got.get(k) != before_src.get(k))))
        if then == 0:
            # write through every path of the clone
            for rel in list(got):
                with open(os.path.join(dst.path, rel), "wb") as f:
                    f.write(b"CHANGED-IN-CLONE")
            if read_all(src.path) != before_src:
                problems.append(("writing through the clone changed what the source job reads", sorted(k for k, v in read_all(src.path).items() if before_src.get(k) != v)))
            with open(os.path.join(sc.root, "outside.txt"), "rb") as f:
                if f.read() != b"OUTSIDE":
                    problems.append(("writing through the clone changed a file outside both projects",))
        elif then == 1:
            src.remove()
            if read_all(dst.path) != before_src:
                problems.append(("removing the source changed what the clone reads",))
        else:
            src.statepoint["x"] = 2
            if read_all(dst.path) != before_src:
                problems.append(("re-keying the source changed what the clone reads",))
    return problems


def h_clone_links(lk: int, nested: bool, then: int):
    assert 0 <= lk <= 3 and 0 <= then <= 2
    fresh_path()
    lk, nested, then = ci(lk, 0, 3), cb(nested), ci(then, 0, 2)
    with nt():
        problems = _clone_links_case(lk, nested, then)
    reached()
    assert not problems


HARNESSES = [
    dict(name="h_assign_alias", timeout=(300, 600)),
    dict(name="h_rekey", twin="h_rekey__reach", timeout=(600, 1500), parts=(11, 11)),
    dict(name="h_move_clone", timeout=(400, 900), parts=(4, 4)),
    dict(name="h_clone_links", timeout=(300, 600), unblock=True),
    dict(name="h_refused_then", timeout=(300, 600)),
    dict(name="h_update_sp", timeout=(300, 600)),
]


def extra_checks(tier_):
    return ws.e2_extra(tier_)
