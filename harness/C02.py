"""C02 — initialised jobs persist and reopen exactly; opening is lazy (E2 on MemFS; id-prefix resolution over symbolic directory names)."""
import copy, json
from vflib import memfs, refs, ws
from vflib.hutil import pick, reached, part_ok, kf_filter, spy, tier, fresh_path, nt, ci, cb
import signac.project as P
import signac.job as J

E2 = True
for _c, _a in ((P.Project, "open_job"), (J.Job, "init"), (J._StatePointDict, "save"), (J._StatePointDict, "load"), (P.Project, "_contains_job_id"), (P.Project, "_job_dirs")):
    spy(_c, _a, f"{_c.__module__}.{_c.__qualname__}.{_a}")
CODE = ["signac.project.Project.open_job (by state point / id / id prefix)", "signac.job.Job.__init__ / init / statepoint / cached_statepoint", "signac.job._StatePointDict.save / load",
        "signac.project.Project.__iter__ / __contains__ / __len__ / _job_dirs / _get_statepoint"]
BOUNDS = {"state points": "8 typed templates (bool/int/float/str/None/list/nested/non-ASCII/empty)", "pre-existing file": "absent / canonical / whitespace variant / key-order variant / corrupt",
          "reopen": "fresh session, cache file absent or exact", "prefix": "2-3 directory names c0c1c2 + 'a'*29 with c in {a,b} (first fixed to aaa by symmetry); prefix lengths 1,2,3,4,31,32; any subset of the ids already known to the session"}
OUTSIDE = ["id prefixes over real md5 ids at every length (the resolution code is independent of how the names were produced)", "state points beyond the templates (C01 covers the id function)"]
STUBS = ["MemFS (validated against tmpfs on every run; counterexamples replayed on the real file system)"]
ASSUMPTIONS = []

TEMPLATES = [{"a": 1}, {"a": True}, {"a": 1.0, "b": None}, {"a": "x", "n": {"c": [1, 2.5, {"d": False}]}}, {}, {"é": "ü"}, {"l": [], "m": {}}, {"a": 1, "b": 2, "c": {"z": 0, "y": 1}}]
MUTATING = ("replace", "remove", "rmdir", "mkdir", "open_w", "write")


def _mut_steps(fs):
    return [x for x in fs.log if x[0] in MUTATING]


def _variant(sp, v):
    canon = refs.canon(sp).encode()
    if v == 1:
        return canon
    if v == 2:
        return json.dumps(sp, indent=2).encode()
    if v == 3:
        return json.dumps(dict(reversed(list(sp.items())))).encode() + b"\n"
    return b'{"a": 77}'


def _persist_case(ti, pre, mutate, cache):
    sp = copy.deepcopy(TEMPLATES[ti])
    want = copy.deepcopy(sp)
    s = ws.Sim(paths=("/p",))
    fs = s.fs
    problems = []
    try:
        pr = s.pr["/p"]
        s.add_job("/p", {"other": 1})
        jid = refs.canon_id(want)
        fn = f"/p/workspace/{jid}/signac_statepoint.json"
        if pre:
            fs.put(fn, _variant(want, pre))
        before = fs.snapshot("/p")
        fs.log.clear()
        caller = copy.deepcopy(sp)
        job = pr.open_job(caller)
        if _mut_steps(fs):
            problems.append(("open_job wrote to disk", _mut_steps(fs)))
        if fs.snapshot("/p") != before:
            problems.append(("open_job changed the tree",))
        # later mutation of the caller's mapping has no effect
        if mutate == 1:
            caller["zz"] = 1
        elif mutate == 2 and "n" in caller:
            caller["n"]["c"].append(9)
        elif mutate == 3 and "c" in caller:
            caller["c"]["z"] = 5
        if job.id != jid:
            problems.append(("id", job.id, jid))
        # the lazy handle reports exactly sp, through every accessor, BEFORE init and without any side effect
        try:
            if not refs.same_json(dict(job.cached_statepoint), want):
                problems.append(("cached_statepoint before init", dict(job.cached_statepoint)))
            if not refs.same_json(job.statepoint(), want) or not refs.same_json(job.sp(), want):
                problems.append(("statepoint before init", job.statepoint()))
            repr(job)
        except Exception as e:  # noqa
            problems.append(("accessor raised before init", type(e).__name__, str(e)[:60]))
        if _mut_steps(fs) or fs.snapshot("/p") != before:
            problems.append(("state point access wrote to disk",))
        if not pre:
            # an uninitialised job is unknown to the project: by id, by membership, by length
            try:
                pr.open_job(id=jid)
                problems.append(("open_job(id) of a never initialised job did not raise KeyError",))
            except KeyError:
                pass
            if job in pr or len(pr) != 1:
                problems.append(("uninitialised job counted as member",))
        corrupt = pre == 4
        try:
            job.init()
            raised = None
        except Exception as e:  # noqa
            raised = type(e).__name__
        if corrupt:
            if raised != "JobsCorruptedError":
                problems.append(("init() on a corrupt pre-existing file must raise JobsCorruptedError", raised))
            if fs.get(fn) != _variant(want, 4):
                problems.append(("init() rewrote an existing (corrupt) file",))
        else:
            if raised:
                problems.append(("init raised", raised))
            raw = fs.get(fn)
            if raw is None or not refs.same_json(json.loads(raw), want):
                problems.append(("state point file does not parse to sp", raw))
            if pre and raw != _variant(want, pre):
                problems.append(("init() rewrote a valid pre-existing file",))
            new_dirs = {k for k in fs.snapshot("/p/workspace") if "/" not in k} - {k for k in before if False}
            # idempotent: second init performs no write step
            fs.log.clear()
            job.init()
            pr.open_job(copy.deepcopy(want)).init()
            if _mut_steps(fs):
                problems.append(("second init() wrote", _mut_steps(fs)))
            job.init(force=True)                                     # force only matters for an invalid file: a valid one is never rewritten
            pr.open_job(copy.deepcopy(want)).init(force=True)
            if _mut_steps(fs):
                problems.append(("init(force=True) rewrote a valid file", _mut_steps(fs)))
            if cache:
                pr.update_cache()
            # reopen in a fresh session
            pr2 = memfs.mkproject(fs)
            ids = sorted(j.id for j in pr2)
            if jid not in ids or len(pr2) != len(ids) or len(ids) != 2:
                problems.append(("iteration/len", ids, len(pr2)))
            j2 = pr2.open_job(id=jid)
            if j2 not in pr2 or pr2.open_job(copy.deepcopy(want)) not in pr2:
                problems.append(("membership",))
            if not refs.same_json(j2.statepoint(), want) or not refs.same_json(dict(j2.cached_statepoint), want):
                problems.append(("reopened state point", j2.statepoint(), want))
            for j in pr2:
                if j.id == jid and not (refs.same_json(j.statepoint(), want) and refs.same_json(dict(j.cached_statepoint), want)):
                    problems.append(("iterated state point", j.statepoint()))
            try:
                pr2.open_job(id="f" * 32)
                problems.append(("unknown id did not raise KeyError",))
            except KeyError:
                pass
    finally:
        s.close()
    return (not problems), problems


def h_persist(ti: int, pre: int, mutate: int, cache: bool):
    assert 0 <= ti < 8 and 0 <= pre <= 4 and 0 <= mutate <= 3
    fresh_path()
    ti, pre, mutate, cache = ci(ti, 0, 7), ci(pre, 0, 4), ci(mutate, 0, 3), cb(cache)
    with nt():
        r = _persist_case(ti, pre, mutate, cache)
    reached()
    assert r[0]


def h_persist__reach(ti: int, pre: int, mutate: int, cache: bool):
    assert 0 <= ti < 8 and 0 <= pre <= 4 and 0 <= mutate <= 3
    ti, pre = ci(ti, 0, 7), ci(pre, 0, 4)
    with nt():
        s = ws.Sim(paths=("/p",))
        job = s.pr["/p"].open_job(copy.deepcopy(TEMPLATES[ti]))
        s.fs.log.clear()
        job.init()
        wrote = bool(_mut_steps(s.fs))
        s.close()
    assert not wrote  # twin: init() does write on some path


def _name(bits):
    return "".join("ab"[bits >> i & 1] for i in range(3)) + "a" * 29


def _prefix_case(n0, n1, n2, has2, plen, pbits, known):
    names = [_name(n0), _name(n1)] + ([_name(n2)] if has2 else [])
    names = list(dict.fromkeys(names))
    fs = ws.new_fs()
    memfs.install(fs)
    try:
        pr = memfs.mkproject(fs)
        for i, nm in enumerate(names):
            sp = {"i": i}
            fs.put(f"/p/workspace/{nm}/signac_statepoint.json", json.dumps(sp).encode())
        fs.put_dir("/p/workspace/not_a_job")
        pr2 = memfs.mkproject(fs)
        for i, nm in enumerate(names):
            if known >> i & 1:
                pr2._register(nm, {"i": i})    # ids this session has already seen
        L = [1, 2, 3, 4, 31, 32][plen]
        p = (_name(pbits) if L > 3 else _name(pbits)[:L])[:L]
        matches = [nm for nm in names if nm.startswith(p)]
        try:
            got = pr2.open_job(id=p).id
            out = ("ok", got)
        except LookupError as e:
            out = ("KeyError",) if isinstance(e, KeyError) else ("LookupError",)
        if L == 32:
            want = ("ok", p) if p in names else ("KeyError",)
        elif len(matches) == 1:
            want = ("ok", matches[0])
        elif len(matches) > 1:
            want = ("LookupError",)
        else:
            want = ("KeyError",)
        ok = out == want
    finally:
        memfs.uninstall()
        if isinstance(fs, memfs.RealFS):
            fs.cleanup()
    return ok, (names, p, out, want)


def h_prefix(n0: int, n1: int, n2: int, has2: bool, plen: int, pbits: int, known: int):
    assert n0 == 0 and 0 <= n1 < 8 and 0 <= n2 < 8 and 0 <= plen < 6 and 0 <= pbits < 8 and 0 <= known < 8 and part_ok(n1 * 2 + plen)
    assert has2 or (n2 == 0 and known < 4)   # by symmetry the first name is fixed to 'aaa...'
    assert tier() != "quick" or known <= 2
    fresh_path()
    n0, n1, n2, has2, plen, pbits, known = ci(n0, 0, 7), ci(n1, 0, 7), ci(n2, 0, 7), cb(has2), ci(plen, 0, 5), ci(pbits, 0, 7), ci(known, 0, 7)
    with nt():
        r = _prefix_case(n0, n1, n2, has2, plen, pbits, known)
    reached()
    assert r[0]


# ids that are not ids: strings of 32+ characters that the file system resolves to something that exists
NOT_IDS = ["@/", "@/.", "./" * 16, "../workspace/@", "@/signac_statepoint.json", "@/../@", "not_a_job" + "/" * 23, "@ ", "@\n", "X@"[1:].upper() if False else "@".upper()]


def _notid_case(k, known, by_real):
    """an unknown id raises KeyError - also a string that is no id at all but, appended to the workspace path, names an existing entry"""
    fs = ws.new_fs()
    memfs.install(fs)
    try:
        pr = memfs.mkproject(fs)
        job = pr.open_job({"i": 0}).init()
        fs.put_dir("/p/workspace/not_a_job")
        pr2 = memfs.mkproject(fs)
        if known:
            pr2.open_job(id=job.id).statepoint()
        s = NOT_IDS[k].replace("@", job.id)
        if s == job.id:
            s = job.id.upper() if job.id.upper() != job.id else job.id + "0"
        try:
            got = pr2.open_job(id=s)
            out = ("ok", got.id)
        except LookupError as e:
            out = ("KeyError",) if isinstance(e, KeyError) else ("LookupError",)
        except Exception as e:  # noqa
            out = ("error", type(e).__name__)
        ok = out == ("KeyError",)
    finally:
        memfs.uninstall()
        if isinstance(fs, memfs.RealFS):
            fs.cleanup()
    return ok, (s, out)


def h_notid(k: int, known: bool):
    assert 0 <= k < len(NOT_IDS)
    fresh_path()
    k, known = ci(k, 0, len(NOT_IDS) - 1), cb(known)
    with nt():
        r = _notid_case(k, known, False)
    reached()
    assert r[0]


HARNESSES = [
    dict(name="h_persist", twin="h_persist__reach", timeout=(400, 900)),
    dict(name="h_prefix", timeout=(600, 1500), parts=(16, 16)),
    dict(name="h_notid", timeout=(200, 400)),
]


def extra_checks(tier_):
    return ws.e2_extra(tier_)
