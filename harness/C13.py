"""C13 — a successful sync makes the destination a superset and touches nothing else (E4: real file system).

Two real signac projects are built per path in a scratch tree under /dev/shm from solver-chosen small integers; the real
Project.sync / Job.sync runs natively; the post-conditions are evaluated on byte snapshots of both trees."""
import json, os, re
import signac
from vflib import synclib as SL
from vflib.hutil import pick, reached, part_ok, kf_filter, spy, tier, fresh_path, nt, ci, cb, discard
import signac.sync as SY

spy(SY, "sync_projects")
spy(SY, "sync_jobs")
spy(SY, "_sync_job_workspaces")
CODE = ["signac.sync.sync_projects / sync_jobs / _sync_job_workspaces / _FileModifyProxy / _DocProxy / DocSync / FileSync", "signac.project.Project.sync / clone / detect_schema", "signac.job.Job.sync"]
BOUNDS = {"projects": "2 state points; presence of each in src/dst (all 16 combinations; Job.sync needs job0 on both sides)", "file names": "f, sub/g; names on filecmp's default ignore list (tags, sub/CVS); names with braces (a{b}.txt, sub/{})", "files of job0": "f (top level) and sub/g (nested): absent / src only / dst only / identical / different (sizes differ) / different (same size); mtime src older/equal/newer",
          "documents": "7 job-document states (none, one-sided, identical, disjoint incl. nested, flat conflict, nested conflict) x 3 project-document states",
          "options": "file family: selection {None, [id0], [], ()} x strategy {None, always, never, update, custom True/False} x recursive x exclude {None, 'f', 'g'} x entry point {Project.sync, Job.sync}; "
                     "document family: doc_sync {default, ByKey(all), ByKey(regex), update, NO_SYNC, COPY, ByKey(none)} x entry point; check_schema on/off; the two families are crossed with content fully, with each other only in thorough"}
OUTSIDE = ["symlinked FILES / permission / owner options (symlinked directories in the source: h_linked_dir)", "FileSync.Ask", "more than 2 jobs per project", "file names other than f, sub/g, tags, sub/CVS, a{b}.txt, sub/{}"]
STUBS = []
ASSUMPTIONS = ["tmpfs (/dev/shm) behaves like the user's file system for copy / stat / utime / rename", "paths on which the call raises FileSyncConflict / DocumentSyncConflict / SchemaSyncConflict are 'did not return' (their contract is C14)"]

DOCFN, SPFN = "signac_job_document.json", "signac_statepoint.json"


def _excluded(rel, exclude):
    """exclude patterns are matched (re.match) against the entry name at every directory level"""
    if not exclude:
        return False
    return any(re.match(exclude, part) for part in rel.split("/"))


def _post(src, dst, before_src, before_dst, after_src, after_dst, selected_ids, recursive, exclude, doc_idx, entry):
    problems = []
    if after_src != before_src:
        problems.append(("source changed", [k for k in set(after_src) | set(before_src) if after_src.get(k) != before_src.get(k)][:4]))
    ws = "workspace/"
    src_jobs = {k[len(ws):] for k in before_src if k.startswith(ws) and "/" not in k[len(ws):]}
    for jid in src_jobs:
        if jid not in selected_ids:
            continue
        if after_dst.get(ws + jid + "/" + SPFN) is None:
            problems.append(("selected job missing in destination", jid))
            continue
        if json.loads(after_dst[ws + jid + "/" + SPFN]) != json.loads(before_src[ws + jid + "/" + SPFN]):
            problems.append(("state point differs", jid))
        newly = (ws + jid) not in before_dst
        pre = ws + jid + "/"
        for k, v in before_src.items():
            if not k.startswith(pre) or v is None:
                continue
            rel = k[len(pre):]
            if rel == SPFN:
                continue
            if rel == DOCFN and doc_idx != 5 and not newly:
                continue
            if k in before_dst:
                continue                       # present on both sides: C14's business
            nested = "/" in rel
            top = rel.split("/")[0]
            if _excluded(rel, exclude):
                continue                       # a name matching the exclude pattern at any level: C13 says nothing about it (C15: never created)
            if not newly:
                if nested and not recursive:
                    continue
            if after_dst.get(k) != v:
                problems.append(("source-only file not copied byte-identically", k, newly))
    # jobs outside the selection are neither created nor modified
    for jid in src_jobs:
        if jid in selected_ids:
            continue
        pre = ws + jid
        for k in set(after_dst) | set(before_dst):
            if (k == pre or k.startswith(pre + "/")) and after_dst.get(k, "<absent>") != before_dst.get(k, "<absent>"):
                problems.append(("job outside the selection created or modified", k))
                break
    # destination-only files unchanged, nothing deleted
    for k, v in before_dst.items():
        if k not in before_src and not k.endswith(DOCFN) and not k.endswith("signac_project_document.json") and after_dst.get(k, "<gone>") != v:
            problems.append(("destination-only entry changed", k))
        if k not in after_dst:
            problems.append(("destination entry removed", k))
    # destination-only document keys unchanged (job and project documents)
    for k, v in before_dst.items():
        if (k.endswith(DOCFN) or k.endswith("signac_project_document.json")) and v is not None:
            bd = SL.flat(json.loads(v))
            sd = SL.flat(json.loads(before_src[k])) if before_src.get(k) else {}
            ad = SL.flat(json.loads(after_dst[k])) if after_dst.get(k) else {}
            if doc_idx == 5 and k.endswith(DOCFN):
                continue  # COPY treats the document like any other file
            for kk, vv in bd.items():
                if doc_idx == 3 and kk.split(".")[0] in {s.split(".")[0] for s in sd}:
                    continue   # DocSync.update is dict.update: a top-level key present in the source replaces the destination's value as a whole
                if kk not in sd and not any(kk.startswith(s + ".") or s.startswith(kk + ".") for s in sd) and ad.get(kk, "<gone>") != vv:
                    problems.append(("destination-only document key changed", k, kk))
    # no temp / backup files left
    for k in after_dst:
        if k.endswith("~") and k not in before_dst:
            problems.append(("backup file left", k))
    return problems


FNAMES = [("f", "sub/g"), ("tags", "sub/CVS"), ("a{b}.txt", "sub/{}")]   # 1: names on filecmp's default ignore list; 2: braces (str.format fields)


def _files_case(entry, pres, f, g, mrel, strat, recursive, excl, check_schema, csub=False, sel=0, nm=0):
    exclude = [None, "f", "g", "fg", r".*\.json$"][excl]     # "fg": a multi-character pattern given as ONE string; it matches no file of the universe; the last one also matches signac's own file names
    with SL.Scratch() as sc:
        src, dst = SL.build(sc.root, pres, f, g, mrel, 0, 0, csub, names=FNAMES[nm])
        bs, bd = SL.snap(src.path), SL.snap(dst.path)
        ids = [j.id for j in src]
        if entry == 0:
            selection = [None, [src.open_job(SL.SPS[0]).id], [], ()][sel]
            call = lambda: dst.sync(src, strategy=SL.strategy(strat), recursive=recursive, exclude=exclude, check_schema=check_schema, selection=selection)
            selected = set(ids) if selection is None else {str(x) for x in selection}
        else:
            sj, dj = src.open_job(SL.SPS[0]), dst.open_job(SL.SPS[0])
            call = lambda: dj.sync(sj, strategy=SL.strategy(strat), recursive=recursive, exclude=exclude)
            selected = {sj.id}
        out = SL.outcome(call)
        if out != "ok":
            return out, []
        as_, ad = SL.snap(src.path), SL.snap(dst.path)
        problems = _post(src, dst, bs, bd, as_, ad, selected, recursive, exclude, 0, entry)
        # idempotent
        out2 = SL.outcome(call)
        if out2 != "ok":
            problems.append(("second identical sync did not succeed", out2))
        elif SL.snap(dst.path) != ad or SL.snap(src.path) != as_:
            problems.append(("second identical sync changed something",))
        return "ok", problems


def h_files(entry: int, pres: int, f: int, g: int, mrel: int, strat: int, recursive: bool, excl: int, check_schema: bool, csub: bool, sel: int, nm: int):
    assert 0 <= nm <= 2 and (nm == 0 or (excl == 0 and sel == 0 and not csub and not check_schema and (tier() != "quick" or (strat <= 1 and mrel == 0 and pres in (3, 15)))))
    assert 0 <= entry <= 1 and 0 <= pres < 16 and 0 <= f <= 5 and 0 <= g <= 5 and 0 <= mrel <= 2 and 0 <= strat <= 5 and 0 <= excl <= 4 and part_ok(f * 6 + g)
    assert pres & 1 and (entry == 0 or pres & 3 == 3)          # job0 exists in the source (and in both for Job.sync)
    assert (f in (4, 5) or g in (4, 5)) or mrel == 0           # the mtime relation only matters for differing files
    assert (entry == 0 or not check_schema)
    assert excl != 4 or (strat == 1 and mrel == 0 and not check_schema and not csub and pres in (1, 7))
    assert tier() != "quick" or (pres in (1, 3, 7, 15) and g in (0, 1, 4) and excl in (0, 1, 3, 4) and strat in (0, 1, 2, 3))
    assert tier() == "quick" or (pres in (1, 3, 5, 7, 15) and (excl in (0, 3, 4) or (strat in (0, 1) and not check_schema)) and (mrel == 0 or strat in (0, 3)))   # sized to ~10 min on 16 cores
    assert (not csub) or (pres & 3 == 3 and (tier() != "quick" or (g == 1 and strat == 1)))   # common sub-directory: only meaningful when job0 is on both sides
    assert 0 <= sel <= 3 and (sel == 0 or (entry == 0 and (tier() != "quick" or (strat == 1 and excl == 0 and g <= 1 and f <= 1))))
    fresh_path()
    entry, pres, f, g, mrel, strat, recursive, excl, check_schema, csub = ci(entry, 0, 1), ci(pres, 0, 15), ci(f, 0, 5), ci(g, 0, 5), ci(mrel, 0, 2), ci(strat, 0, 5), cb(recursive), ci(excl, 0, 4), cb(check_schema), cb(csub)
    sel, nm = ci(sel, 0, 3), ci(nm, 0, 2)
    with nt():
        out, problems = _files_case(entry, pres, f, g, mrel, strat, recursive, excl, check_schema, csub, sel, nm)
    if out != "ok" and not (isinstance(out, tuple)):
        discard("sync did not return (conflict): C14")
    reached()
    assert out == "ok" and not problems


def h_files__reach(entry: int, pres: int, f: int, g: int, mrel: int, strat: int, recursive: bool, excl: int, check_schema: bool, csub: bool, sel: int):
    assert 0 <= entry <= 1 and 0 <= pres < 16 and 0 <= f <= 5 and 0 <= g <= 5 and 0 <= mrel <= 2 and 0 <= strat <= 5 and 0 <= excl <= 2
    assert pres & 1 and (entry == 0 or pres & 3 == 3)
    entry, pres, f, g, strat = ci(entry, 0, 1), ci(pres, 0, 15), ci(f, 0, 5), ci(g, 0, 5), ci(strat, 0, 5)
    with nt():
        out, problems = _files_case(entry, pres, f, g, 2, strat, True, 0, False)
    assert not (out == "ok" and f == 4 and strat == 1)  # twin: a returning sync that overwrote a conflicting file is reachable


def _docs_case(entry, pres, dstate, pstate, didx, strat_copy, tilde=False):
    with SL.Scratch() as sc:
        src, dst = SL.build(sc.root, pres, 1, 0, 0, dstate, pstate)
        if tilde:
            # destination-only files named like an editor's backup of the documents (signac uses the same names for its own backups)
            if pres & 2:
                SL.put(dst.open_job(SL.SPS[0]).fn(DOCFN + "~"), b"editor backup", SL.T_OLD)
            SL.put(os.path.join(dst.path, "signac_project_document.json~"), b"editor backup", SL.T_OLD)
        bs, bd = SL.snap(src.path), SL.snap(dst.path)
        ids = [j.id for j in src]
        # COPY treats documents as files: a file strategy is needed when they differ
        st = SL.strategy(1) if (didx == 5 and strat_copy) else None
        if entry == 0:
            call = lambda: dst.sync(src, doc_sync=SL.doc_sync(didx), strategy=st, check_schema=False)
            selected = set(ids)
        else:
            sj, dj = src.open_job(SL.SPS[0]), dst.open_job(SL.SPS[0])
            call = lambda: dj.sync(sj, doc_sync=SL.doc_sync(didx), strategy=st)
            selected = {sj.id}
        out = SL.outcome(call)
        if out == "doc" and didx == 4:
            return ("error", "DocumentSyncConflict", "raised although doc_sync=NO_SYNC leaves every document alone"), []
        if tilde and isinstance(out, tuple) and out[1] == "RuntimeError":
            # refusing to run over a file it would have to overwrite is fine - as long as nothing was touched
            now = SL.snap(dst.path)
            if any(now.get(k) != v or now.get(k[:-1]) != bd.get(k[:-1]) for k, v in bd.items() if k.endswith("~")):
                return ("error", "RuntimeError", "refused, but the file in the way (or the document next to it) changed"), []
            return "refused", []
        if out != "ok":
            return out, []
        as_, ad = SL.snap(src.path), SL.snap(dst.path)
        problems = _post(src, dst, bs, bd, as_, ad, selected, False, None, didx, entry)
        if didx == 4:
            # NO_SYNC: no existing document of the destination (job or project level) is touched
            for k, v in bd.items():
                if (k.endswith(DOCFN) or k == "signac_project_document.json") and v is not None and ad.get(k) != v:
                    problems.append(("NO_SYNC changed a destination document", k))
        # source document keys absent from the destination are now present (unless NO_SYNC)
        if didx not in (4,):
            docs_ = [k for k in bs if k.endswith(DOCFN) and bs[k] is not None and k.split("/")[1] in selected]
            if entry == 0:
                docs_ += [k for k in bs if k == "signac_project_document.json"]
            for k in docs_:
                if didx == 5 and k == "signac_project_document.json":
                    continue
                sd = SL.flat(json.loads(bs[k]))
                bdk = SL.flat(json.loads(bd[k])) if bd.get(k) else {}
                adk = SL.flat(json.loads(ad[k])) if ad.get(k) else {}
                for kk, vv in sd.items():
                    if kk not in bdk and not any(kk.startswith(b + ".") or b.startswith(kk + ".") for b in bdk) and adk.get(kk, "<missing>") != vv:
                        problems.append(("source-only document key not merged", k, kk))
        out2 = SL.outcome(call)
        if out2 != "ok":
            problems.append(("second identical sync did not succeed", out2))
        elif SL.snap(dst.path) != ad or SL.snap(src.path) != as_:
            problems.append(("second identical sync changed something",))
        return "ok", problems


def h_docs(entry: int, pres: int, dstate: int, pstate: int, didx: int, strat_copy: bool, tilde: bool):
    assert 0 <= entry <= 1 and 0 <= pres < 16 and 0 <= dstate <= 6 and 0 <= pstate <= 2 and 0 <= didx <= 6 and part_ok(dstate)
    assert pres & 1 and (entry == 0 or pres & 3 == 3) and (didx == 5 or not strat_copy)
    assert tier() != "quick" or pres in (3, 7, 15, 1)
    assert not tilde or (pres in (3, 15) and not strat_copy)
    fresh_path()
    entry, pres, dstate, pstate, didx, strat_copy, tilde = ci(entry, 0, 1), ci(pres, 0, 15), ci(dstate, 0, 6), pick([0, 4, 5], pstate), ci(didx, 0, 6), cb(strat_copy), cb(tilde)
    with nt():
        out, problems = _docs_case(entry, pres, dstate, pstate, didx, strat_copy, tilde)
    if out != "ok" and not isinstance(out, tuple):
        discard("sync did not return (conflict): C14")
    reached()
    assert out == "ok" and not problems


# ---------------------------------------------------------------------------------------- argument reuse, look-alike names, half-made jobs
LOOKALIKES = ["signac_statepoint.json.orig", "signac_job_document.json.bak", "signac_statepointXjson", "signac_statepoint.jsonl",
              "signac_statepoint.json", "signac_job_document.json"]      # the last two: signac's own names are data when they lie BELOW the job directory (a project nested in a job)


def _reuse_case(entry, first, second, pres2):
    """the SAME exclude list object is passed to two consecutive syncs (first with doc_sync `first`, then `second`): the second sync must
    behave as if it had been given a fresh list - with COPY the (source-only) document file is a non-excluded source file and must arrive;
    a job that is new to the destination in the second sync arrives with state point and document"""
    problems = []
    with SL.Scratch() as sc:
        src, dst = SL.build(sc.root, 3, 1, 0, 0, 1, 0)          # job0 on both sides, document only in the source
        ex = ["nothing-matches-this"]
        kw1 = dict(exclude=ex, doc_sync=SL.doc_sync(first), check_schema=False)
        kw2 = dict(exclude=ex, doc_sync=SL.doc_sync(second), check_schema=False, strategy=SL.strategy(1))
        sj, dj = src.open_job(SL.SPS[0]), dst.open_job(SL.SPS[0])
        if entry == 0:
            c1, c2 = (lambda: dst.sync(src, **kw1)), (lambda: dst.sync(src, **kw2))
        else:
            kw1.pop("check_schema"), kw2.pop("check_schema")
            c1, c2 = (lambda: dj.sync(sj, **kw1)), (lambda: dj.sync(sj, **kw2))
        o1 = SL.outcome(c1)
        if o1 != "ok":
            return [("first sync did not return", o1)]
        if pres2 and entry == 0:
            j1 = src.open_job(SL.SPS[1]).init()
            SL.put(j1.fn("h"), b"H-src", SL.T_MID)
            j1.document["j1"] = 1
        bs = SL.snap(src.path)
        o2 = SL.outcome(c2)
        if o2 != "ok":
            return [("second sync did not return", o2)]
        ad = SL.snap(dst.path)
        if SL.snap(src.path) != bs:
            problems.append(("source changed",))
        for jid in [sj.id] + ([src.open_job(SL.SPS[1]).id] if (pres2 and entry == 0) else []):
            pre = "workspace/%s/" % jid
            if ad.get(pre + SPFN) is None:
                problems.append(("job without state point file in the destination", jid))
            want = json.loads(bs[pre + DOCFN])
            got = json.loads(ad.get(pre + DOCFN) or b"{}")
            if second != 4 and got != want:
                problems.append(("source document did not arrive on the second sync that reuses the exclude list", jid, got, want, first, second))
    return problems


def h_reuse(entry: int, first: int, second: int, pres2: bool):
    assert 0 <= entry <= 1 and first in (0, 3, 4) and second in (0, 1, 3, 5)
    fresh_path()
    entry, first, second, pres2 = ci(entry, 0, 1), pick([0, 3, 4], [0, 3, 4].index(ci(first, 0, 4))), pick([0, 1, 3, 5], [0, 1, 3, 5].index(ci(second, 0, 5))), cb(pres2)
    with nt():
        problems = _reuse_case(entry, first, second, pres2)
    reached()
    assert not problems


def _lookalike_case(entry, nm, nested, recursive, didx, common=True):
    """source-only data files whose names merely START like signac's own file names are ordinary non-excluded files"""
    problems = []
    name = LOOKALIKES[nm]
    if nm >= 4 and not nested:
        return []          # at the top of the job directory these are signac's own files
    rel = ("sub/" + name) if nested else name
    with SL.Scratch() as sc:
        src, dst = SL.build(sc.root, 3, 0, 0, 0, 0, 0)
        sj, dj = src.open_job(SL.SPS[0]), dst.open_job(SL.SPS[0])
        SL.put(sj.fn(rel), b"payload", SL.T_MID)
        if nested and common:
            SL.put(sj.fn("sub/c"), b"C", SL.T_MID)
            SL.put(dj.fn("sub/c"), b"C", SL.T_MID)      # the sub-directory exists on both sides: compared level by level
        bs = SL.snap(src.path)
        kw = dict(recursive=recursive, doc_sync=SL.doc_sync(didx), check_schema=False)
        if entry == 0:
            call = lambda: dst.sync(src, **kw)
        else:
            kw.pop("check_schema")
            call = lambda: dj.sync(sj, **kw)
        out = SL.outcome(call)
        if out != "ok":
            return [("sync did not return", out)]
        ad = SL.snap(dst.path)
        if SL.snap(src.path) != bs:
            problems.append(("source changed",))
        if (not nested or recursive) and ad.get("workspace/%s/%s" % (sj.id, rel)) != b"payload":
            problems.append(("non-excluded source file not copied", rel))
    return problems


def h_lookalike(entry: int, nm: int, nested: bool, recursive: bool, didx: int):
    assert 0 <= entry <= 1 and 0 <= nm < len(LOOKALIKES) and didx in (0, 4)
    fresh_path()
    entry, nm, nested, recursive, didx = ci(entry, 0, 1), ci(nm, 0, len(LOOKALIKES) - 1), cb(nested), cb(recursive), pick([0, 4], 0 if didx == 0 else 1)
    with nt():
        problems = _lookalike_case(entry, nm, nested, recursive, didx)
        if nested:
            problems += _lookalike_case(entry, nm, nested, recursive, didx, common=False)     # the sub-directory exists only in the source: copied as a tree
    reached()
    assert not problems


def _halfmade_case(entry, with_file, with_doc):
    """the destination holds an EMPTY directory named by the id of a source job (a job whose creation was interrupted): after a
    successful sync the job exists in the destination with the same state point"""
    problems = []
    with SL.Scratch() as sc:
        src, dst = SL.build(sc.root, 1, 1 if with_file else 0, 0, 0, 1 if with_doc else 0, 0)
        sj = src.open_job(SL.SPS[0])
        os.makedirs(os.path.join(dst.workspace, sj.id))
        src, dst = signac.get_project(src.path, search=False), signac.get_project(dst.path, search=False)
        bs = SL.snap(src.path)
        if entry == 0:
            call = lambda: dst.sync(src, check_schema=False)
        else:
            call = lambda: dst.open_job(id=sj.id).sync(src.open_job(SL.SPS[0]))
        out = SL.outcome(call)
        if out != "ok":
            return []      # refusing is fine; returning without the job is not
        ad = SL.snap(dst.path)
        raw = ad.get("workspace/%s/%s" % (sj.id, SPFN))
        if raw is None or json.loads(raw) != SL.SPS[0]:
            problems.append(("sync returned, but the selected job has no (or a different) state point in the destination", raw))
        if SL.snap(src.path) != bs:
            problems.append(("source changed",))
    return problems


def h_halfmade(entry: int, with_file: bool, with_doc: bool):
    assert 0 <= entry <= 1
    fresh_path()
    entry, with_file, with_doc = ci(entry, 0, 1), cb(with_file), cb(with_doc)
    with nt():
        problems = _halfmade_case(entry, with_file, with_doc)
    reached()
    assert not problems


def _linked_dir_case(entry, newjob, nestedlink):
    """the source job contains a SYMBOLIC LINK to a directory (results kept on scratch and linked into the job); follow_symlinks defaults
    to True and recursive=True: the files below the link are source files like any others"""
    problems = []
    with SL.Scratch() as sc:
        src, dst = SL.build(sc.root, 1 if newjob else 3, 1, 0, 0, 0, 0)
        sj = src.open_job(SL.SPS[0])
        store = os.path.join(sc.root, "scratch_storage")
        SL.put(os.path.join(store, "traj.bin"), b"TRAJ", SL.T_MID)
        SL.put(os.path.join(store, "frames", "f0.txt"), b"F0", SL.T_MID)
        link = sj.fn("sub/output") if nestedlink else sj.fn("output")
        os.makedirs(os.path.dirname(link), exist_ok=True)
        os.symlink(store, link)
        rel = "sub/output" if nestedlink else "output"
        if entry == 0:
            call = lambda: dst.sync(src, recursive=True, check_schema=False)
        else:
            call = lambda: dst.open_job(SL.SPS[0]).sync(src.open_job(SL.SPS[0]), recursive=True)
        out = SL.outcome(call)
        if out != "ok":
            return [("sync did not return", out)]
        dj = dst.open_job(SL.SPS[0])
        for f_, want in (("traj.bin", b"TRAJ"), ("frames/f0.txt", b"F0")):
            pth = dj.fn(rel + "/" + f_)
            if not os.path.isfile(pth) or open(pth, "rb").read() != want:
                problems.append(("file below a linked directory of the source job did not arrive", rel + "/" + f_))
        if open(os.path.join(store, "traj.bin"), "rb").read() != b"TRAJ":
            problems.append(("the linked storage changed",))
    return problems


def h_linked_dir(entry: int, newjob: bool, nestedlink: bool):
    assert 0 <= entry <= 1
    fresh_path()
    entry, newjob, nestedlink = ci(entry, 0, 1), cb(newjob), cb(nestedlink)
    with nt():
        problems = _linked_dir_case(entry, newjob, nestedlink)
    reached()
    assert not problems


def _copy_fault_case(entry, newjob, which, err):
    """an I/O fault in the MIDDLE of copying one file (half of it is written, then ENOSPC/EIO): the sync either raises or completes -
    it never returns normally with a file that is not byte-identical"""
    import shutil as _sh, errno as _errno
    problems = []
    with SL.Scratch() as sc:
        src, dst = SL.build(sc.root, 1 if newjob else 3, 1, 1, 0, 0, 0)
        sj = src.open_job(SL.SPS[0])
        SL.put(sj.fn("out/traj.bin"), b"T" * 4096, SL.T_MID)
        SL.put(sj.fn("big.bin"), b"B" * 4096, SL.T_MID)
        victim = ["traj.bin", "big.bin", "g"][which]
        real = _sh.copyfile
        fired = []

        def faulty(a, b, *args, **kw):
            if os.path.basename(a) == victim and not fired:
                fired.append(a)
                with open(a, "rb") as fa, open(b, "wb") as fb:
                    data = fa.read()
                    fb.write(data[:len(data) // 2])
                raise OSError([_errno.ENOSPC, _errno.EIO][err], "injected", b)
            return real(a, b, *args, **kw)
        _sh.copyfile = faulty
        try:
            if entry == 0:
                out = SL.outcome(lambda: dst.sync(src, recursive=True, check_schema=False))
            else:
                out = SL.outcome(lambda: dst.open_job(SL.SPS[0]).sync(src.open_job(SL.SPS[0]), recursive=True))
        finally:
            _sh.copyfile = real
        if out == "ok" and fired:
            bs = SL.snap(src.path)
            ad = SL.snap(dst.path)
            pre = "workspace/%s/" % sj.id
            bad = sorted(k for k, v in bs.items() if k.startswith(pre) and v is not None and ad.get(k) not in (v,) and not k.endswith(DOCFN))
            if bad:
                problems.append(("sync returned normally after an I/O fault in the middle of a file, the destination is not byte-identical", bad[:3]))
    return problems


def h_copy_fault(entry: int, newjob: bool, which: int, err: int):
    assert 0 <= entry <= 1 and 0 <= which <= 2 and 0 <= err <= 1
    fresh_path()
    entry, newjob, which, err = ci(entry, 0, 1), cb(newjob), ci(which, 0, 2), ci(err, 0, 1)
    with nt():
        problems = _copy_fault_case(entry, newjob, which, err)
    reached()
    assert not problems


def _type_mix_case(entry, which, strat):
    """one name, a FILE on one side and a DIRECTORY on the other: the source entry cannot be brought over - a sync that returns normally
    without it (and without raising) silently breaks 'every non-excluded source file ... is now present'"""
    problems = []
    with SL.Scratch() as sc:
        src, dst = SL.build(sc.root, 3, 0, 0, 0, 0, 0)
        sj, dj = src.open_job(SL.SPS[0]), dst.open_job(SL.SPS[0])
        if which == 0:
            SL.put(sj.fn("x"), b"FILE", SL.T_MID)
            SL.put(dj.fn("x/inner.txt"), b"DIR", SL.T_MID)
        else:
            SL.put(sj.fn("x/inner.txt"), b"DIR", SL.T_MID)
            SL.put(dj.fn("x"), b"FILE", SL.T_MID)
        bd = SL.snap(dst.path)
        kw = dict(recursive=True, strategy=SL.strategy(strat))
        if entry == 0:
            out = SL.outcome(lambda: dst.sync(src, check_schema=False, **kw))
        else:
            out = SL.outcome(lambda: dj.sync(sj, **kw))
        ad = SL.snap(dst.path)
        pre = "workspace/%s/" % sj.id
        if out == "ok":
            arrived = (ad.get(pre + "x") == b"FILE") if which == 0 else (ad.get(pre + "x/inner.txt") == b"DIR")
            if not arrived:
                problems.append(("sync returned normally, but the source entry did not arrive (file/directory name collision ignored)", which))
        elif isinstance(out, tuple):
            problems.append(("unexpected exception", out))
        if out != "ok" and ad != bd:
            problems.append(("conflict reported, but the destination changed",))
    return problems


def h_type_mix(entry: int, which: int, strat: int):
    assert 0 <= entry <= 1 and 0 <= which <= 1 and 0 <= strat <= 2
    fresh_path()
    entry, which, strat = ci(entry, 0, 1), ci(which, 0, 1), ci(strat, 0, 2)
    with nt():
        problems = _type_mix_case(entry, which, strat)
    reached()
    assert not problems


HARNESSES = [
    dict(name="h_files", twin="h_files__reach", timeout=(900, 3000), parts=(36, 36), unblock=True),
    dict(name="h_docs", timeout=(900, 3000), parts=(7, 7), unblock=True),
    dict(name="h_reuse", timeout=(300, 600), unblock=True),
    dict(name="h_lookalike", timeout=(300, 600), unblock=True),
    dict(name="h_halfmade", timeout=(300, 600), unblock=True),
    dict(name="h_linked_dir", timeout=(300, 600), unblock=True),
    dict(name="h_copy_fault", timeout=(300, 600), unblock=True),
    dict(name="h_type_mix", timeout=(300, 600), unblock=True),
]
