"""C09 — state point corruption is always detected, never accepted, and repairable.

E2: real Project.check / repair / open_job(id=) / Job.init code natively on MemFS. Symbolic: victim subset, damage kind,
byte offset (every offset of the file incl. len), replacement byte class, cache presence."""
import json
from vflib import memfs, refs, ws
from vflib.hutil import pick, reached, part_ok, kf_filter, spy, tier, fresh_path, nt, ci, cb
import signac.project as P
import signac.job as J
from signac.errors import JobsCorruptedError

E2 = True
for _c, _a in ((P.Project, "check"), (P.Project, "repair"), (P.Project, "_get_statepoint_from_workspace"), (P.Project, "_get_statepoint"), (J._StatePointDict, "load"), (J.Job, "init")):
    spy(_c, _a, f"{_c.__module__}.{_c.__qualname__}.{_a}")
CODE = ["signac.project.Project.check / repair / _get_statepoint_from_workspace / _get_statepoint / open_job(id=)", "signac.job._StatePointDict.load / save", "signac.job.Job.init(force=)"]
BOUNDS = {"project, second universe": "the empty state point {}, {a:0}, {a:false, n:{}} (h_damage_falsy)", "project": "3 jobs: flat {a:1}, nested {a:{b:[1,2.5,'x']},c:null}, non-ASCII keys/values (\\u escapes in the file); each with a document and a data file",
          "damage": "truncation at EVERY offset 0..len; single-byte replacement at every offset by a representative of 9 byte classes (digit, letter, quote, closing brace, opening bracket, comma, colon, space, 0x80, newline); "
                    "deletion; replacement by another job's file; by other valid JSON ([], 1, {}, null); by an ==-equal but JSON-different state point (1 -> 1.0, 1 -> true); renaming the directory to an unused id",
          "victims": "any non-empty subset of the 3 jobs (same damage kind, offsets derived per file)", "cache": "persistent cache absent / exact"}
OUTSIDE = ["multi-byte damage other than the listed replacements", "damage to documents / data files (not in the property)", "two job directories swapped with each other (a chain of renames through an unused id is covered: kind 7)"]
STUBS = ["MemFS (validated against tmpfs on every run; counterexamples replayed on the real file system)"]
ASSUMPTIONS = ["a job is damaged iff its state point file is missing, unparsable, or parses to a value whose canonical hash differs from the directory name (independent classification in vflib.refs)"]

SPS = [{"a": 1}, {"a": {"b": [1, 2.5, "x"]}, "c": None}, {"é": "ü", "k": [True]}]
BYTES = [b"7", b"x", b'"', b"}", b"[", b",", b":", b" ", b"\x80", b"\n"]
EQUAL_DIFFERENT = [b'{"a": 1.0}', b'{"a": {"b": [1, 2.5, "x"]}, "c": false}', b'{"\\u00e9": "\\u00fc", "k": [1]}']
OTHER_JSON = [b"[]", b"1", b"{}", b"null", b'"x"']
UNUSED_ID = "0123456789abcdef0123456789abcdef"
NKIND = 8


def _classify(raw, dirname):
    """independent oracle: damaged?"""
    if raw is None:
        return True
    try:
        v = json.loads(raw.decode())
    except (ValueError, UnicodeDecodeError):
        return True
    try:
        return refs.canon_id(v) != dirname
    except TypeError:
        return True


def _same_target(raw, tgt):
    try:
        v = json.loads(raw.decode())
        return isinstance(v, dict) and refs.canon_id(v) == tgt
    except (ValueError, UnicodeDecodeError, TypeError):
        return False


def _build(with_cache):
    s = ws.Sim(paths=("/p",))
    for i, sp in enumerate(SPS):
        s.add_job("/p", sp, doc={"d": i}, files={"f%d" % i: b"data%d" % i})
    if with_cache:
        s.pr["/p"].update_cache()
    return s


def _damage(fs, i, kind, off, cls):
    d = refs.canon_id(SPS[i])
    fn = f"/p/workspace/{d}/signac_statepoint.json"
    raw = fs.get(fn)
    n = len(raw)
    off = off % (n + 1)
    if kind == 0:      # truncate
        fs.put(fn, raw[:off])
    elif kind == 1:    # single byte replacement
        off = off % n
        fs.put(fn, raw[:off] + BYTES[cls % len(BYTES)] + raw[off + 1:])
    elif kind == 2:    # delete
        fs.delete_raw(fn)
    elif kind == 3:    # another job's file
        other = refs.canon_id(SPS[(i + 1) % 3])
        fs.put(fn, fs.get(f"/p/workspace/{other}/signac_statepoint.json") if cls % 2 == 0 else json.dumps(SPS[(i + 1) % 3]).encode())
    elif kind == 4:    # other valid JSON
        fs.put(fn, OTHER_JSON[cls % len(OTHER_JSON)])
    elif kind == 5:    # ==-equal but different JSON value
        fs.put(fn, EQUAL_DIFFERENT[i])
    elif kind == 6:    # rename the directory to an unused id (intact file inside)
        fs.rename_raw(f"/p/workspace/{d}", f"/p/workspace/{UNUSED_ID[:-1]}{i}")
    elif kind == 7:    # a CHAIN of renames: this job's directory goes to an unused id (cls even: one that sorts first, odd: one that sorts last),
        #                and the next job's directory takes this job's id - two intact files in two misnamed directories
        other = refs.canon_id(SPS[(i + 1) % 3])
        unused = (UNUSED_ID[:-1] + str(i)) if cls % 2 == 0 else ("f" * 31 + str(i))
        fs.rename_raw(f"/p/workspace/{d}", f"/p/workspace/{unused}")
        fs.rename_raw(f"/p/workspace/{other}", f"/p/workspace/{d}")
    return d


def _state(fs):
    """{dirname: raw state point bytes or None}, and the payload snapshot (everything except state point files)"""
    snap = fs.snapshot("/p/workspace")
    dirs = {k for k, v in snap.items() if "/" not in k}
    sp = {d: snap.get(d + "/signac_statepoint.json") for d in dirs}
    payload = {k: v for k, v in snap.items() if not k.endswith("signac_statepoint.json") and v is not None}
    return sp, payload


def _launder_case(victims, kind, off, cls, with_cache):
    """update_cache() in a fresh session after the damage: whatever it does (raise or succeed), neither the in-memory nor the persistent
    cache may afterwards hand out a state point that does not hash to its id (same damage on a freshly built project)"""
    s = _build(with_cache)
    fs = s.fs
    problems = []
    try:
        for i in range(3):
            if victims >> i & 1:
                _damage(fs, i, kind, off + i, cls)
        sp, _ = _state(fs)
        pu = memfs.mkproject(fs)
        try:
            pu.update_cache()
        except Exception:  # noqa
            pass
        for sess in (pu, memfs.mkproject(fs)):
            for d in sp:
                try:
                    got = sess.open_job(id=d).statepoint()
                    if refs.canon_id(got) != d:
                        problems.append(("after update_cache(): open_job(id) yields a state point that does not hash to the id", d, got))
                    cs = dict(sess.open_job(id=d).cached_statepoint)
                    if refs.canon_id(cs) != d:
                        problems.append(("after update_cache(): cached_statepoint does not hash to the id", d, cs))
                except Exception:  # noqa
                    pass
    finally:
        s.close()
    return problems


def _case(victims, kind, off, cls, with_cache, do_repair):
    s = _build(with_cache)
    fs = s.fs
    problems = []
    try:
        for i in range(3):
            if victims >> i & 1:
                _damage(fs, i, kind, off + i, cls)
        sp, payload = _state(fs)
        damaged = {d for d, raw in sp.items() if _classify(raw, d)}
        pr = memfs.mkproject(fs)
        try:
            pr.check()
            named = set()
        except JobsCorruptedError as e:
            named = set(e.job_ids)
        except Exception as e:  # noqa
            problems.append(("check() raised", type(e).__name__))
            named = None
        if named is not None and named != damaged:
            problems.append(("check() names", sorted(named), "damaged", sorted(damaged)))
        # opening by id in a fresh session never yields a state point whose hash differs from the id
        for d in sp:
            for cache_on in (False, True):
                pr2 = memfs.mkproject(fs)
                if not cache_on:
                    pr2._sp_cache_read = True   # a session that does not consult the persistent cache
                try:
                    handle = pr2.open_job(id=d)
                except Exception:  # noqa
                    continue
                for attempt in (1, 2, 3):      # the same handle asked again: a failed validated load must not be remembered as done
                    try:
                        got = handle.statepoint() if attempt != 3 else dict(handle.cached_statepoint)
                        if refs.canon_id(got) != d:
                            problems.append(("open_job(id) accepted a state point that does not hash to the id", d, got, "attempt", attempt))
                    except Exception:  # noqa  -- raising (JobsCorruptedError, KeyError, UnicodeDecodeError ...) is "not yielding a state point"
                        pass
                raw_before = fs.get(f"/p/workspace/{d}/signac_statepoint.json")
                try:
                    handle.init()
                except Exception:  # noqa
                    pass
                raw_after = fs.get(f"/p/workspace/{d}/signac_statepoint.json")
                if d in damaged and raw_after != raw_before and _classify(raw_after, d):
                    problems.append(("init() through a by-id handle wrote a state point file that does not hash to the id", d, raw_after))
                if raw_after != raw_before:
                    fs.put(f"/p/workspace/{d}/signac_statepoint.json", raw_before) if raw_before is not None else fs.delete_raw(f"/p/workspace/{d}/signac_statepoint.json")
        problems += _launder_case(victims, kind, off, cls, with_cache)
        memfs.install(fs)    # the nested simulator un-installed the environment stubs on exit
        if do_repair and not problems:
            known = {refs.canon_id(x) for x in SPS} if with_cache else set()
            pr3 = memfs.mkproject(fs)
            try:
                pr3.repair()
                rep_named = set()
            except JobsCorruptedError as e:
                rep_named = set(e.job_ids)
            except Exception as e:  # noqa
                problems.append(("repair() raised", type(e).__name__))
                rep_named = set()
            sp2, payload2 = _state(fs)
            still = {d for d, raw in sp2.items() if _classify(raw, d)}
            # recoverable: state point known from the cache, or an intact file in a misnamed directory
            recoverable = set()
            targets = {}
            for d in damaged:
                if d in known:
                    recoverable.add(d)
                else:
                    raw = sp[d]
                    try:
                        v = json.loads(raw.decode()) if raw is not None else None
                        if isinstance(v, dict) and refs.canon_id(v) != d and refs.canon_id(v) not in sp:
                            targets.setdefault(refs.canon_id(v), []).append(d)
                    except (ValueError, UnicodeDecodeError, TypeError):
                        pass
            for tgt, ds in targets.items():
                if len(ds) == 1:       # two directories claiming the same id cannot both be moved there
                    recoverable.add(ds[0])
            # chains: a misnamed directory whose correct location is occupied by ANOTHER misnamed directory that can itself be moved away
            occupied = set(sp)
            moved = {d for d in recoverable if d not in known or True} & {ds[0] for ds in targets.values() if len(ds) == 1}
            for d in moved:
                occupied.discard(d)
            changed = True
            while changed:
                changed = False
                for d in sorted(damaged - recoverable):
                    raw = sp[d]
                    try:
                        v = json.loads(raw.decode()) if raw is not None else None
                    except (ValueError, UnicodeDecodeError):
                        continue
                    if isinstance(v, dict) and refs.canon_id(v) != d and refs.canon_id(v) not in occupied:
                        claim = [x for x in damaged if x != d and sp[x] is not None and _same_target(sp[x], refs.canon_id(v))]
                        if not claim:
                            recoverable.add(d)
                            occupied.discard(d)
                            occupied.add(refs.canon_id(v))
                            changed = True
            for d in recoverable:
                # the job (under its correct id) must validate now
                if d in still:
                    problems.append(("recoverable job still damaged after repair()", d))
            try:
                memfs.mkproject(fs).check()
                chk = set()
            except JobsCorruptedError as e:
                chk = set(e.job_ids)
            if chk != still:
                problems.append(("check() after repair disagrees with classification", sorted(chk), sorted(still)))
            if not (damaged - recoverable) and (chk or rep_named):
                problems.append(("all damage was recoverable but repair()/check() still report", sorted(rep_named), sorted(chk)))
            # the repairing session (whether repair() succeeded or gave up on some jobs) may go on and update the persistent cache:
            # neither that session nor a fresh one may afterwards hand out a state point that does not hash to its id
            try:
                pr3.update_cache()
            except Exception:  # noqa
                pass
            for sess in (pr3, memfs.mkproject(fs)):
                for d in sp2:
                    try:
                        h3 = sess.open_job(id=d)
                        got = h3.statepoint()
                        if refs.canon_id(got) != d:
                            problems.append(("after repair() + update_cache(): open_job(id) yields a state point that does not hash to the id", d, got))
                        cs = dict(h3.cached_statepoint)
                        if refs.canon_id(cs) != d:
                            problems.append(("after repair() + update_cache(): cached_statepoint does not hash to the id", d, cs))
                    except Exception:  # noqa
                        pass
            # documents and data files byte-identical (a repaired misnamed directory moves as a whole)
            strip = lambda pl: sorted((k.split("/", 1)[1], v) for k, v in pl.items() if "/" in k)
            if strip(payload2) != strip(payload):
                problems.append(("repair() changed a document or data file",))
    finally:
        s.close()
    return (not problems), problems


def h_damage(victims: int, kind: int, off: int, cls: int, with_cache: bool, do_repair: bool):
    assert 1 <= victims <= 7 and 0 <= kind < NKIND and 0 <= off <= 64 and 0 <= cls < 10 and part_ok(off)
    assert (kind <= 1 or off == 0) and (kind in (1, 3, 4, 7) or cls == 0) and (kind != 3 or cls < 2) and (kind != 4 or cls < 5) and (kind != 7 or (cls < 2 and victims in (1, 2, 4)))
    assert tier() != "quick" or victims in (1, 2, 4, 7)
    fresh_path()
    victims, kind, off, cls, with_cache, do_repair = ci(victims, 1, 7), ci(kind, 0, NKIND - 1), ci(off, 0, 64), ci(cls, 0, 9), cb(with_cache), cb(do_repair)
    with nt():
        r = _case(victims, kind, off, cls, with_cache, do_repair)
    reached()
    assert r[0]


def h_damage__reach(victims: int, kind: int, off: int, cls: int, with_cache: bool, do_repair: bool):
    assert 1 <= victims <= 7 and 0 <= kind < NKIND and 0 <= off <= 64 and 0 <= cls < 10
    victims, kind, off, cls = ci(victims, 1, 7), ci(kind, 0, NKIND - 1), ci(off, 0, 64), ci(cls, 0, 9)
    with nt():
        s = _build(False)
        _damage(s.fs, 0, kind, off, cls)
        sp, _ = _state(s.fs)
        harmless = not any(_classify(raw, d) for d, raw in sp.items())
        s.close()
    assert not (harmless and kind == 1)  # twin: a single-byte change that does NOT damage the job (whitespace) is reachable


# a second universe: the EMPTY state point and falsy values (whatever tests truthiness instead of presence trips here)
SPS_ALT = [{}, {"a": 0}, {"a": False, "n": {}}]
EQUAL_DIFFERENT_ALT = [b" {}", b'{"a": 0.0}', b'{"a": 0, "n": {}}']


def h_damage_falsy(victims: int, kind: int, off: int, cls: int, with_cache: bool, do_repair: bool):
    assert 1 <= victims <= 7 and 0 <= kind < NKIND and 0 <= off <= 24 and 0 <= cls < 10 and part_ok(off)
    assert (kind <= 1 or off == 0) and (kind in (1, 3, 4) or cls == 0) and (kind != 3 or cls < 2) and (kind != 4 or cls < 5)
    assert victims in (1, 2, 4, 7) and (tier() != "quick" or kind != 1 or cls in (0, 3, 8)) and kind != 7
    fresh_path()
    victims, kind, off, cls, with_cache, do_repair = ci(victims, 1, 7), ci(kind, 0, NKIND - 1), ci(off, 0, 24), ci(cls, 0, 9), cb(with_cache), cb(do_repair)
    with nt():
        g = globals()
        keep = g["SPS"], g["EQUAL_DIFFERENT"]
        g["SPS"], g["EQUAL_DIFFERENT"] = SPS_ALT, EQUAL_DIFFERENT_ALT
        try:
            r = _case(victims, kind, off, cls, with_cache, do_repair)
        finally:
            g["SPS"], g["EQUAL_DIFFERENT"] = keep
    reached()
    assert r[0]


HARNESSES = [
    dict(name="h_damage", twin="h_damage__reach", timeout=(900, 3000), parts=(16, 16)),
    dict(name="h_damage_falsy", timeout=(900, 3000), parts=(8, 8)),
]


def extra_checks(tier_):
    return ws.e2_extra(tier_)
