"""C03 — the workspace equals a plain model after any history (E2: real Project/Job code on MemFS, symbolic pre-state and operation),
plus 'only exactly-id-named directories count as jobs' (E3 direct z3 query on the live JOB_ID_REGEX + E1 on Project._job_dirs)."""
import ast, inspect, os, textwrap, types
import signac.project as P
from vflib.hutil import pick, reached, part_ok, kf_filter, spy, tier, fresh_path, nt, ci, cb

CODE = ["signac.project.Project._job_dirs", "signac.project.JOB_ID_REGEX"]
BOUNDS = {"listing": "E3: all strings (unbounded length) over z3's character sort; E1: directory names of length in {0,1,31,32,33,40} built from a fill character, one deviating character at a position in {0,1,16,30,31,32} and a last character, each from {a,0,g,.,A}"}
OUTSIDE = []
STUBS = ["os.listdir of the workspace returns the symbolic name (E1 listing harness)"]
ASSUMPTIONS = []

ALPHA = ["a", "0", "g", ".", "A"]
LENS = [0, 1, 31, 32, 33, 40]
POSS = [0, 1, 16, 30, 31, 32]


def _listing(names):
    pr = P.Project.__new__(P.Project)
    pr._workspace = "/p/workspace"
    real_os = P.os
    P.os = types.SimpleNamespace(listdir=lambda p: list(names), path=real_os.path, sep=real_os.sep)
    try:
        return list(pr._job_dirs())
    finally:
        P.os = real_os


def not_fullmatch(n, extra):
    """known-finding predicate: a name that merely starts with 32 hex characters"""
    return n > 32


def h_listing(n: int, c0: int, c1: int, pos: int, c2: int):
    """a directory name is listed as a job  <=>  it is exactly 32 lowercase hex characters. The name is built from a symbolic length,
    a fill character, and one deviating character at a symbolic position."""
    assert 0 <= n < 6 and 0 <= c0 < 5 and 0 <= c1 < 5 and 0 <= pos < 6 and 0 <= c2 < 5
    assert kf_filter("C03.not_fullmatch", not_fullmatch(pick(LENS, n), 0))
    fresh_path()
    n, pos = pick(LENS, n), pick(POSS, pos)
    fill, dev, last = pick(ALPHA, c0), pick(ALPHA, c1), pick(ALPHA, c2)
    chars = [fill] * n
    if pos < n:
        chars[pos] = dev
    if n:
        chars[-1] = last if pos != n - 1 else dev
    d = "".join(chars)
    with nt():
        got = _listing([d, "x" + d])
        want = [d] if (len(d) == 32 and all(ch in "0123456789abcdef" for ch in d)) else []
    reached()
    assert got == want


def h_listing__reach(n: int, c0: int, c1: int, pos: int, c2: int):
    assert 0 <= n < 6 and 0 <= c0 < 5 and 0 <= c1 < 5 and 0 <= pos < 6 and 0 <= c2 < 5
    d = pick(ALPHA, c0) * pick(LENS, n)
    assert _listing([d]) == []


HARNESSES = [
    dict(name="h_listing", twin="h_listing__reach", timeout=(300, 600)),
]


def _regex_method_in_job_dirs():
    """syntactic side information: which re method _job_dirs applies to JOB_ID_REGEX"""
    src = textwrap.dedent(inspect.getsource(P.Project._job_dirs))
    for node in ast.walk(ast.parse(src)):
        if isinstance(node, ast.Call) and isinstance(node.func, ast.Attribute) and isinstance(node.func.value, ast.Name) and node.func.value.id == "JOB_ID_REGEX":
            return node.func.attr
    return None


def extra_checks(tier_):
    import z3
    from vflib import re2z3
    out = {"evaluations": 0, "distinct": 0, "queries": 0, "solver_s": 0.0, "violations": [], "errors": [], "samples": [], "info": {}}
    q = re2z3.Q()
    method = _regex_method_in_job_dirs()
    out["info"]["job_dirs_regex_method"] = method
    out["info"]["JOB_ID_REGEX"] = P.JOB_ID_REGEX.pattern
    if method not in ("match", "fullmatch", "search"):
        out["errors"].append(f"cannot determine the regex method used in Project._job_dirs ({method}); E3 listing query not generated")
        return out
    try:
        L = re2z3.lang_for(P.JOB_ID_REGEX, method)
    except NotImplementedError as e:
        out["errors"].append(f"regex not translatable: {e}")
        return out
    hexd = z3.Union(z3.Range("0", "9"), z3.Range("a", "f"))
    hex32 = z3.Loop(hexd, 32, 32)
    ok1, w1 = q.included("accepted-by-_job_dirs subset-of exactly-32-lowercase-hex", L, hex32)
    ok2, w2 = q.included("exactly-32-lowercase-hex subset-of accepted-by-_job_dirs", hex32, L)
    ne, wn = q.nonempty("vacuity: accepted language is non-empty", L)
    for ok, w, what in ((ok1, w1, "a directory name that is not a 32-character lowercase hex id is listed as a job"), (ok2, w2, "a valid job id directory is not listed")):
        if ok is None:
            out["errors"].append("z3 unknown on listing query")
        elif ok is False:
            # replay the witness through the real function
            got = _listing([w])
            is_id = len(w) == 32 and all(ch in "0123456789abcdef" for ch in w)
            if (w in got) != is_id:
                out["violations"].append({"name": "listing_regex", "msg": f"{what}: {w!r} -> listed={w in got}", "call": f"_listing([{w!r}])", "witness": repr(w)})
            else:
                out["errors"].append(f"E3 witness {w!r} does not reproduce on Project._job_dirs (encoding wrong?)")
    if ne is not True:
        out["errors"].append("vacuity twin failed: accepted language empty or unknown")
    out["evaluations"] = q.n
    out["distinct"] = q.n
    out["queries"] = q.n
    out["solver_s"] = q.t
    out["samples"] = q.log
    return out
