"""C03 — the workspace equals a plain model after any history (E2: real Project/Job code on MemFS, symbolic pre-state and operation),
plus 'only exactly-id-named directories count as jobs' (E3 direct z3 query on the live JOB_ID_REGEX + E1 on Project._job_dirs)."""
import ast, inspect, os, textwrap, types
import signac.project as P
from vflib.hutil import pick, reached, part_ok, kf_filter, spy, tier, fresh_path, nt, ci, cb

CODE = ["signac.project.Project._job_dirs", "signac.project.JOB_ID_REGEX", "signac.job.Job (init, document, clear, reset, remove, statepoint edits/assignment, update_statepoint, move, copy/pickle support)", "signac.job._StatePointDict._save", "signac.project.Project (open_job, clone, update_cache, check, __len__/__iter__/__contains__)"]
BOUNDS = {"histories": "closed universe {a:0|1} x {b absent|0}; initial workspace = 3 subsets (quick, handles on {a:0}/{a:1}) / 4 subsets x with/without document+file x every unordered pair of handle state points (thorough); two independent handles (different state points) plus shallow copies; 31 operation instances; history length <= 2 (quick, thorough) / 3 (thorough, from one initial state); two projects; after EVERY step: ids/state points/documents/files through a fresh session == model, check() passes, directory name == hash of its state point file, len/iter/contains agree, no temp/backup files, live handles describe their job", "listing": "E3: all strings (unbounded length) over z3's character sort; E1: directory names of length in {0,1,31,32,33,40} built from a fill character, one deviating character at a position in {0,1,16,30,31,32} and a last character, each from {a,0,g,.,A}"}
OUTSIDE = ["universes with more keys / values / nesting in the history harness (nested edits: C04)", "H5 stores (h5py not installed)", "handles pickled into another process (in-process pickle round trips: C04)", "histories longer than 3"]
STUBS = ["os.listdir of the workspace returns the symbolic name (E1 listing harness)"]
ASSUMPTIONS = []

ALPHA = ["a", "0", "g", ".", "A"]
LENS = [0, 1, 31, 32, 33, 40]
POSS = [0, 1, 16, 30, 31, 32]


def _listing(names):
    pr = P.Project.__new__(P.Project)
    pr._workspace = "/p/workspace"
    real_os = P.os
    P.os = types.SimpleNamespace(listdir=lambda p: list(names), path=real_os.path, sep=real_os.sep)
    try:
        return list(pr._job_dirs())
    finally:
        P.os = real_os


def not_fullmatch(n, extra):
    """known-finding predicate: a name that merely starts with 32 hex characters"""
    return n > 32


def h_listing(n: int, c0: int, c1: int, pos: int, c2: int):
    """a directory name is listed as a job  <=>  it is exactly 32 lowercase hex characters. The name is built from a symbolic length,
    a fill character, and one deviating character at a symbolic position."""
    assert 0 <= n < 6 and 0 <= c0 < 5 and 0 <= c1 < 5 and 0 <= pos < 6 and 0 <= c2 < 5 and part_ok(n)
    assert kf_filter("C03.not_fullmatch", not_fullmatch(pick(LENS, n), 0))
    fresh_path()
    n, pos = pick(LENS, n), pick(POSS, pos)
    fill, dev, last = pick(ALPHA, c0), pick(ALPHA, c1), pick(ALPHA, c2)
    chars = [fill] * n
    if pos < n:
        chars[pos] = dev
    if n:
        chars[-1] = last if pos != n - 1 else dev
    d = "".join(chars)
    with nt():
        got = _listing([d, "x" + d])
        want = [d] if (len(d) == 32 and all(ch in "0123456789abcdef" for ch in d)) else []
    reached()
    assert got == want


def h_listing__reach(n: int, c0: int, c1: int, pos: int, c2: int):
    assert 0 <= n < 6 and 0 <= c0 < 5 and 0 <= c1 < 5 and 0 <= pos < 6 and 0 <= c2 < 5
    d = pick(ALPHA, c0) * pick(LENS, n)
    assert _listing([d]) == []


# ------------------------------------------------------------------------------------------------ histories (E2)
from vflib import memfs, refs, ws
import signac.job as J

E2 = True
U = [{"a": 0}, {"a": 1}, {"a": 0, "b": 0}, {"a": 1, "b": 0}]
# (op, args) instances; the slot is a separate symbolic variable
OPS = [("init", ()), ("doc_set", ("k", 1)), ("doc_del", ("k",)), ("put", ("f", b"F")), ("put", ("sub/g", b"G")), ("clear", ()), ("reset", ()), ("remove", ()),
       ("sp_set", ("a", 0)), ("sp_set", ("a", 1)), ("sp_set", ("b", 0)), ("sp_del", ("b",)), ("sp_assign", ({"a": 1},)), ("sp_assign", ({"a": 0, "b": 0},)), ("sp_assign", ({"a": 0},)),
       ("sp_update", ({"b": 0}, False)), ("sp_update", ({"a": 1}, False)), ("sp_update", ({"a": 1}, True)), ("sp_update", ({"b": 0, "a": 1}, False)), ("sp_update", ({"b": 0, "a": 1}, True)), ("move", ("/q",)), ("clone", ("/q",)), ("update_cache", ()),
       ("copy", ("copy",)), ("reopen", (False,)), ("reopen", (True,)), ("doc_reset", ({"r": [1, {"s": None}]},)), ("restart", ()),
       ("sp_assign_bad", ({"a": 1, "b.c": 3}, "InvalidKeyError")), ("sp_assign_bad", ({"b": 0, 1: 1}, "KeyTypeError")),
       ("remove_reopen", ())]     # remove the job, drop the handle, and ask the SAME session for the job by id again (served from its state point cache)
NOP = len(OPS)


def _hist_case(mask, payload, i0, i1, steps, byid=0):
    s = ws.Sim(paths=("/p", "/q"))
    problems = []
    try:
        for i in range(4):
            if mask >> i & 1:
                s.add_job("/p", U[i], doc={"k": 0} if payload & 1 else None, files={"f": b"0"} if payload & 2 else None)
        s.add_job("/q", {"a": 9}, doc={"q": 1})
        s.restart("/p")
        # initial handles: by state point, or (bit set and the job exists) by id in the fresh session - a handle that has not loaded its state point yet
        s.open(0, "/p", U[i0], by_id=bool(byid & 1 and mask >> i0 & 1))
        s.open(1, "/p", U[i1], by_id=bool(byid & 2 and mask >> i1 & 1))
        for n, (slot, oi) in enumerate(steps):
            op, args = OPS[oi]
            if slot not in s.handles:
                s.open(slot, "/p", U[i0 if slot == 0 else i1])
            h = s.handles[slot]
            if op == "reopen":
                by_id = args[0]
                if by_id and ws.key(h.sp) not in s.model.ws(h.path):
                    continue
                s.open(slot, h.path, h.sp, by_id=by_id)
            elif op == "restart":
                s.restart("/p")
                s.restart("/q")
                continue
            elif op == "remove_reopen":
                try:
                    h.jobs[-1].statepoint()      # the session has seen the job's state point (a by-id handle loads and registers it)
                    h.knows = True
                except Exception:  # noqa
                    pass
                if not s.apply(slot, "remove"):
                    problems.append((n, "outcome", s.errors[-1]))
                    break
                try:
                    job = s.pr[h.path].open_job(id=refs.canon_id(h.sp))
                    s.handles[slot] = ws.Handle(job, h.sp, h.path, knows=job._cached_statepoint is not None)
                except KeyError:
                    pass          # the session does not know the id any more: nothing to re-open
            else:
                if op == "move" and h.path == "/q":
                    args = ("/p",)
                if op == "clone" and h.path == "/q":
                    args = ("/p",)
                if not s.apply(slot, op, *args):
                    problems.append((n, "outcome", s.errors[-1]))
                    break
            if not (s.agree("/p") and s.agree("/q") and s.session_agree("/p") and s.session_agree("/q")):
                problems.append((n, op, args, "workspace != model", s.errors[-3:]))
                break
            for sl in list(s.handles):
                hh = s.handles[sl]
                if ws.key(hh.sp) in s.model.ws(hh.path) or True:
                    if not s.handles_follow(sl):
                        problems.append((n, op, "handle", sl, s.errors[-2:]))
                        break
            if problems:
                break
    finally:
        s.close()
    return (not problems), problems


def h_hist(mask: int, payload: int, i0: int, i1: int, s0: int, o0: int, s1: int, o1: int, s2: int, o2: int, n: int, byid: int):
    """histories of n operations through two independent handles (plus shallow copies) on two projects, from a symbolic initial workspace"""
    assert 0 <= mask < 16 and 0 <= payload <= 3 and 0 <= i0 < 4 and 0 <= i1 < 4 and i0 != i1 and 0 <= s0 <= 1 and 0 <= s1 <= 1 and 0 <= s2 <= 1
    assert 0 <= o0 < NOP and 0 <= o1 < NOP and 0 <= o2 < NOP and 1 <= n <= 3 and part_ok(o0)
    assert (n >= 2 or (o1 == 0 and s1 == 0)) and (n >= 3 or (o2 == 0 and s2 == 0)) and 0 <= byid <= 3
    assert tier() != "quick" or byid in (0, 1)
    assert s0 == 0   # by symmetry of the two slots the first operation uses slot 0
    assert (n <= 2 and mask in (0, 1, 3) and payload == 3 and i0 < 2 and i1 < 2) if tier() == "quick" else (
        (n <= 2 and mask in (0, 1, 3, 15) and payload in (0, 3) and i0 < i1 and byid <= 1) or (n == 3 and mask == 1 and payload == 3 and i0 == 0 and i1 == 1 and byid == 0))
    fresh_path()
    mask, payload, i0, i1, n, byid = ci(mask, 0, 15), ci(payload, 0, 3), ci(i0, 0, 3), ci(i1, 0, 3), ci(n, 1, 3), ci(byid, 0, 3)
    steps = [(ci(s0, 0, 1), ci(o0, 0, NOP - 1)), (ci(s1, 0, 1), ci(o1, 0, NOP - 1)), (ci(s2, 0, 1), ci(o2, 0, NOP - 1))][:n]
    with nt():
        r = _hist_case(mask, payload, i0, i1, steps, byid)
    reached()
    assert r[0]


def h_hist__reach(mask: int, payload: int, i0: int, i1: int, s0: int, o0: int, s1: int, o1: int, s2: int, o2: int, n: int, byid: int):
    assert 0 <= mask < 16 and 0 <= o0 < NOP
    mask, o0 = ci(mask, 0, 15), ci(o0, 0, NOP - 1)
    with nt():
        s = ws.Sim(paths=("/p", "/q"))
        if mask & 1:
            s.add_job("/p", U[0])
        s.open(0, "/p", U[0])
        op, args = OPS[o0]
        ok = True
        if op not in ("reopen", "restart"):
            ok = s.apply(0, op, *args)
        exc = bool(s.errors)
        s.close()
    assert ok and not (op == "sp_set" and mask & 1 and args == ("a", 1))  # twin: a re-key of an initialised job is reachable


# ------------------------------------------------------------------------------------------------ E4: the real constructor with a relative path
def _relative_case(spell, inside):
    """a Project built directly from a RELATIVE path; the working directory changes afterwards (`with job:` enters the job directory):
    every later operation through the project / job handles still acts on the project - workspace == model"""
    import os, shutil, json
    import signac
    root = "/dev/shm/vf_c03rel_%d" % os.getpid()
    shutil.rmtree(root, ignore_errors=True)
    os.makedirs(root)
    old = os.getcwd()
    problems = []
    try:
        os.chdir(root)
        signac.init_project(os.path.join(root, "proj"))
        pr = signac.Project(["proj", "./proj", "proj/../proj", "proj/"][spell])
        j1 = pr.open_job({"a": 1}).init()

        def work():
            pr.open_job({"a": 2}).init()
            j1.document["k"] = 1
            pr.document["p"] = [1, {"q": 2}]
            with open(j1.fn("out.txt"), "w") as f:
                f.write("x")
        if inside:
            with j1:
                work()
        else:
            os.makedirs(os.path.join(root, "elsewhere"))
            os.chdir(os.path.join(root, "elsewhere"))
            work()
        os.chdir(root)
        fresh = signac.get_project(os.path.join(root, "proj"), search=False)
        got = {j.id: (j.statepoint(), dict(j.document()), sorted(os.listdir(j.path))) for j in fresh}
        want = {signac.job.calc_id({"a": 1}): ({"a": 1}, {"k": 1}, ["out.txt", "signac_job_document.json", "signac_statepoint.json"]),
                signac.job.calc_id({"a": 2}): ({"a": 2}, {}, ["signac_statepoint.json"])}
        if got != want:
            problems.append(("workspace differs from the model", got))
        if dict(fresh.document()) != {"p": [1, {"q": 2}]}:
            problems.append(("project document", dict(fresh.document())))
        fresh.check()
        stray = sorted(n for n in os.listdir(root) if n not in ("proj", "elsewhere")) + sorted(os.listdir(os.path.join(root, "elsewhere")) if not inside else [])
        if stray:
            problems.append(("entries created outside the project", stray))
    except Exception as e:  # noqa
        problems.append(("operation failed", type(e).__name__, str(e)[:100]))
    finally:
        os.chdir(old)
        shutil.rmtree(root, ignore_errors=True)
    return problems


def h_relative_project(spell: int, inside: bool):
    assert 0 <= spell <= 3
    fresh_path()
    spell, inside = ci(spell, 0, 3), cb(inside)
    with nt():
        problems = _relative_case(spell, inside)
    reached()
    assert not problems


HARNESSES = [
    dict(name="h_listing", twin="h_listing__reach", timeout=(300, 600), parts=(6, 6)),
    dict(name="h_hist", twin="h_hist__reach", timeout=(900, 3000), parts=(31, 31)),
    dict(name="h_relative_project", timeout=(300, 600), unblock=True),
]


def _regex_method_in_job_dirs():
    """syntactic side information: which re method _job_dirs applies to JOB_ID_REGEX"""
    src = textwrap.dedent(inspect.getsource(P.Project._job_dirs))
    for node in ast.walk(ast.parse(src)):
        if isinstance(node, ast.Call) and isinstance(node.func, ast.Attribute) and isinstance(node.func.value, ast.Name) and node.func.value.id == "JOB_ID_REGEX":
            return node.func.attr
    return None


def extra_checks(tier_):
    import z3
    e2 = ws.e2_extra(tier_)
    from vflib import re2z3
    out = {"evaluations": 0, "distinct": 0, "queries": 0, "solver_s": 0.0, "violations": [], "errors": [], "samples": [], "info": {}}
    q = re2z3.Q()
    method = _regex_method_in_job_dirs()
    out["info"]["job_dirs_regex_method"] = method
    out["info"]["JOB_ID_REGEX"] = P.JOB_ID_REGEX.pattern
    if method not in ("match", "fullmatch", "search"):
        out["errors"].append(f"cannot determine the regex method used in Project._job_dirs ({method}); E3 listing query not generated")
        return out
    try:
        L = re2z3.lang_for(P.JOB_ID_REGEX, method)
    except NotImplementedError as e:
        out["errors"].append(f"regex not translatable: {e}")
        return out
    hexd = z3.Union(z3.Range("0", "9"), z3.Range("a", "f"))
    hex32 = z3.Loop(hexd, 32, 32)
    ok1, w1 = q.included("accepted-by-_job_dirs subset-of exactly-32-lowercase-hex", L, hex32)
    ok2, w2 = q.included("exactly-32-lowercase-hex subset-of accepted-by-_job_dirs", hex32, L)
    ne, wn = q.nonempty("vacuity: accepted language is non-empty", L)
    for ok, w, what in ((ok1, w1, "a directory name that is not a 32-character lowercase hex id is listed as a job"), (ok2, w2, "a valid job id directory is not listed")):
        if ok is None:
            out["errors"].append("z3 unknown on listing query")
        elif ok is False:
            # replay the witness through the real function
            got = _listing([w])
            is_id = len(w) == 32 and all(ch in "0123456789abcdef" for ch in w)
            if (w in got) != is_id:
                out["violations"].append({"name": "listing_regex", "msg": f"{what}: {w!r} -> listed={w in got}", "call": f"_listing([{w!r}])", "witness": repr(w)})
            else:
                out["errors"].append(f"E3 witness {w!r} does not reproduce on Project._job_dirs (encoding wrong?)")
    if ne is not True:
        out["errors"].append("vacuity twin failed: accepted language empty or unknown")
    out["evaluations"] = q.n
    out["distinct"] = q.n
    out["queries"] = q.n
    out["solver_s"] = q.t
    out["samples"] = q.log
    out["traces_validated"] = e2["traces_validated"]
    out["errors"] += e2["errors"]
    out["info"].update(e2["info"])
    return out
