"""C14 — conflicts are overwritten iff told to; failed document syncs roll back.

E1 kernel: the real DocSync.ByKey.__call__ / DocSync.update on plain nested dicts with symbolic presence / equality / strategy verdicts.
E4 (real file system, per-path scratch tree in /dev/shm): Job.sync / Project.sync with file-backed documents and conflicting files.
"""
import os, re, shutil
from vflib.hutil import pick, reached, part_ok, kf_filter, spy, tier, fresh_path, nt, ci, cb, entered

import signac.sync as SY
from signac.sync import DocSync, FileSync
from signac.errors import DocumentSyncConflict, FileSyncConflict

spy(DocSync.ByKey, "__call__", "signac.sync.DocSync.ByKey.__call__")

CODE = ["signac.sync.DocSync.ByKey.__call__", "signac.sync.DocSync.update", "signac.sync._FileModifyProxy.create_doc_backup/create_backup", "signac.sync.sync_jobs",
        "signac.sync._sync_job_workspaces", "signac.sync.FileSync.always/never/update", "signac.sync.sync_projects"]
BOUNDS = {"documents": "4 leaf keys at depths 1,2,3,3 (x, n.y, n.m.z, n.m.w); per key: absent / equal / different in dst; src leaf vs dst mapping; strategy verdict per full dotted key (16 tables); strategy kind None / predicate / regex",
          "files": "1-2 conflicting files (top level / nested), equal or different size, mtime older/equal/newer; strategies None/always/never/update/custom(True)/custom(False)"}
OUTSIDE = ["mtime ties below file-system resolution", "src mapping vs dst scalar under the same key (raises TypeError in ByKey; not a statement of the property)", "FileSync.Ask"]
STUBS = []
ASSUMPTIONS = ["tmpfs semantics of /dev/shm equal those of the user's file system for copy / utime / stat"]

LEAVES = ["x", "n.y", "n.m.z", "n.m.w"]


def _set(d, dotted, v):
    parts = dotted.split(".")
    for p in parts[:-1]:
        d = d.setdefault(p, {})
    d[parts[-1]] = v


def _flat(d, pre=""):
    out = {}
    for k, v in d.items():
        if isinstance(v, dict) and v:
            out.update(_flat(v, pre + k + "."))
        else:
            out[pre + k] = v
    return out


def depth3_root_lost(st, verdicts):
    """known-finding predicate: a conflict below the second level (n.m.*) whose verdict differs from that of the truncated key"""
    return any(st[i] == 2 for i in (2, 3))


def h_bykey_mixed(s0: int, nv: bool, kind: int, extra: int):
    """mixed-type conflict: src has a mapping under 'n', dst a scalar. Whatever the outcome (normal return, DocumentSyncConflict or the
    TypeError the current code raises), dst['n'] may only be overwritten if the key strategy selected 'n'; other keys follow the reference merge."""
    assert 0 <= s0 <= 2 and 0 <= kind <= 2 and 0 <= extra <= 1
    fresh_path()
    s0, nv, kind, extra = ci(s0, 0, 2), cb(nv), ci(kind, 0, 2), ci(extra, 0, 1)
    with nt():
        src = {"n": {"y": 1, "m": {"z": 1}}, "x": 1}
        dst = {"n": 5}
        if s0 == 1:
            dst["x"] = 1
        elif s0 == 2:
            dst["x"] = 0
        if extra:
            dst["only"] = 7
        if kind == 0:
            strat = None
        elif kind == 1:
            strat = lambda key: nv if key == "n" else False
        else:
            strat = "^n$" if nv else "^$nomatch"
        m = DocSync.ByKey(strat)
        try:
            m(src, dst)
            out = "ok"
        except DocumentSyncConflict:
            out = "conflict"
        except TypeError:
            out = "typeerror"
        selected = kind != 0 and nv
        ok = True
        if dst.get("n") != 5 and not selected:
            ok = False          # overwritten although not selected
        if dst.get("n") not in (5, {"y": 1, "m": {"z": 1}}):
            ok = False          # neither old nor new
        if extra and dst.get("only") != 7:
            ok = False
        if s0 == 2 and dst.get("x") != 0:
            ok = False          # 'x' differs and is never selected here
        if kind == 0 and out == "ok":
            ok = False          # a conflict with no strategy must not pass silently
    reached()
    assert ok


def h_bykey(s0: int, s1: int, s2: int, s3: int, vd: int, kind: int, extra: int):
    """real ByKey merge == reference merge: overwritten iff (differs and strategy(full dotted key)); dst-only keys kept;
    with no strategy and >=1 conflict -> DocumentSyncConflict naming exactly the conflicting full keys; the strategy is only asked about full keys."""
    assert 0 <= s0 <= 3 and 0 <= s1 <= 3 and 0 <= s2 <= 3 and 0 <= s3 <= 3 and 0 <= vd < 16 and 0 <= kind <= 2 and 0 <= extra <= 1 and part_ok(vd)
    assert kf_filter("C14.depth3_root_lost", depth3_root_lost((s0, s1, s2, s3), vd))
    fresh_path()
    st = [ci(s0, 0, 3), ci(s1, 0, 3), ci(s2, 0, 3), ci(s3, 0, 3)]   # per key in dst: 0 absent, 1 equal, 2 different scalar, 3 a mapping where src has a scalar
    vd, kind, extra = ci(vd, 0, 15), ci(kind, 0, 2), ci(extra, 0, 1)
    with nt():
        ok = _bykey_case(st, vd, kind, extra)
    reached()
    assert ok


def _bykey_case(st, vd, kind, extra):
    src, dst = {}, {}
    for i, k in enumerate(LEAVES):
        _set(src, k, 1)
        if st[i] == 1:
            _set(dst, k, 1)
        elif st[i] == 2:
            _set(dst, k, 0)
        elif st[i] == 3:
            _set(dst, k, {"q": 0})
    if extra:
        dst["only"] = 5
        dst.setdefault("n", {})["only"] = 6
    verdict = {k: bool(vd >> i & 1) for i, k in enumerate(LEAVES)}
    asked = []
    if kind == 0:
        strat = None
    elif kind == 1:
        def strat(key):
            asked.append(key)
            return verdict.get(key, False)
    else:
        sel = [re.escape(k) for k in LEAVES if verdict[k]]
        strat = "^(" + "|".join(sel) + ")$" if sel else "^$nomatch"
    before = _flat(dst)
    conflicts = {k for i, k in enumerate(LEAVES) if st[i] in (2, 3)}
    m = DocSync.ByKey(strat)
    try:
        m(src, dst)
        raised = None
    except DocumentSyncConflict as e:
        raised = e
    after = _flat(dst)
    if kind == 0 and conflicts:
        return raised is not None and set(raised.keys) == conflicts and all(after.get(k + (".q" if st[LEAVES.index(k)] == 3 else "")) == before.get(k + (".q" if st[LEAVES.index(k)] == 3 else "")) for k in conflicts)
    if raised is not None:
        return False
    want = dict(before)
    for i, k in enumerate(LEAVES):
        if st[i] == 0:
            want[k] = 1
        elif st[i] in (2, 3) and verdict[k]:
            for kk in [x for x in want if x == k or x.startswith(k + ".")]:
                del want[kk]
            want[k] = 1
    if after != want:
        return False
    if kind == 1 and not set(asked) <= set(LEAVES):
        return False
    if kind != 0 and m.skipped_keys != {k for k in conflicts if not verdict[k]}:
        return False
    return True


def h_bykey__reach(s0: int, s1: int, s2: int, s3: int, vd: int, kind: int, extra: int):
    assert 0 <= s0 <= 3 and 0 <= s1 <= 3 and 0 <= s2 <= 3 and 0 <= s3 <= 3 and 0 <= vd < 16 and 0 <= kind <= 2 and 0 <= extra <= 1
    st = [ci(s0, 0, 3), ci(s1, 0, 3), ci(s2, 0, 3), ci(s3, 0, 3)]
    src, dst = {"x": 1}, ({"x": 0} if st[0] == 2 else {})
    asked = []

    def strat(key):
        asked.append(key)
        return True
    DocSync.ByKey(strat)(src, dst)
    assert not asked  # twin: the strategy must be consulted on some path


def h_update(s0: int, s1: int, s2: int, extra: int):
    """DocSync.update overwrites every differing top-level key and keeps dst-only keys"""
    assert 0 <= s0 <= 2 and 0 <= s1 <= 2 and 0 <= s2 <= 2 and 0 <= extra <= 1
    fresh_path()
    st = [ci(s0, 0, 2), ci(s1, 0, 2), ci(s2, 0, 2)]
    extra = ci(extra, 0, 1)
    src = {"a": 1, "b": {"c": 1}, "d": [1]}
    dst = {}
    for i, k in enumerate(["a", "b", "d"]):
        if st[i] == 1:
            dst[k] = {"a": 1, "b": {"c": 1}, "d": [1]}[k]
        elif st[i] == 2:
            dst[k] = {"a": 0, "b": {"c": 0, "z": 1}, "d": [0]}[k]
    if extra:
        dst["only"] = 7
    DocSync.update(src, dst)
    reached()
    assert dst == ({"a": 1, "b": {"c": 1}, "d": [1], "only": 7} if extra else {"a": 1, "b": {"c": 1}, "d": [1]})


# ------------------------------------------------------------------------------------------------ E4: real file system
import json as _json
from vflib import synclib as SL
from vflib.hutil import discard


def _file_iff_case(entry, f, g, mrel, strat, recursive):
    """conflicting files (top level f, nested sub/g): overwritten iff the strategy says so; None -> FileSyncConflict and untouched"""
    with SL.Scratch() as sc:
        src, dst = SL.build(sc.root, 15, f, g, mrel, 0, 0)
        bd = SL.snap(dst.path)
        bs = SL.snap(src.path)
        calls = []
        st = SL.strategy(strat, calls)
        if entry == 0:
            call = lambda: dst.sync(src, strategy=st, recursive=recursive, check_schema=False)
        else:
            sj, dj = src.open_job(SL.SPS[0]), dst.open_job(SL.SPS[0])
            call = lambda: dj.sync(sj, strategy=st, recursive=recursive)
        out = SL.outcome(call)
        ad = SL.snap(dst.path)
        problems = []
        jid = src.open_job(SL.SPS[0]).id
        conflicts = [rel for rel, stt in (("f", f), ("sub/g", g)) if stt in (4, 5) and (rel == "f" or recursive)]
        if isinstance(out, tuple):
            problems.append(("unexpected exception", out))
        for rel, stt in (("f", f), ("sub/g", g)):
            key = "workspace/%s/%s" % (jid, rel)
            if stt not in (4, 5):
                continue
            if rel == "sub/g" and not recursive:
                if ad.get(key) != bd.get(key):
                    problems.append(("nested conflicting file changed although recursive=False", rel))
                continue
            if strat == 0:
                if out != "file":
                    problems.append(("no strategy, differing file, but no FileSyncConflict", rel, out))
                if ad.get(key) != bd.get(key):
                    problems.append(("file touched although FileSyncConflict was raised", rel))
            elif out == "ok":
                want_over = SL.strategy_says(strat, mrel)
                over = ad.get(key) == bs.get(key)
                if over != want_over:
                    problems.append(("overwritten", over, "strategy says", want_over, rel, strat, mrel))
        if strat >= 4 and out == "ok":
            if sorted(calls) != sorted(conflicts):
                problems.append(("custom strategy consulted for", calls, "differing files are", conflicts))
        if SL.snap(src.path) != bs:
            problems.append(("source changed",))
        if any(k.endswith("~") for k in ad):
            problems.append(("backup left",))
        return out, problems


def h_file_iff(entry: int, f: int, g: int, mrel: int, strat: int, recursive: bool):
    assert 0 <= entry <= 1 and 3 <= f <= 5 and 0 <= g <= 5 and 0 <= mrel <= 2 and 0 <= strat <= 5 and part_ok(strat)
    assert f in (4, 5) or g in (4, 5)
    assert not (mrel == 1 and (f == 5 or g == 5))   # same size AND same mtime: the shallow comparison cannot see the difference (deep=True: C15)
    fresh_path()
    entry, f, g, mrel, strat, recursive = ci(entry, 0, 1), ci(f, 3, 5), ci(g, 0, 5), ci(mrel, 0, 2), ci(strat, 0, 5), cb(recursive)
    with nt():
        out, problems = _file_iff_case(entry, f, g, mrel, strat, recursive)
    reached()
    assert not problems


def _doc_rollback_case(entry, dstate, pstate, didx):
    """document conflicts: overwritten only if the key strategy selects them; DocumentSyncConflict leaves the destination document exactly as before"""
    with SL.Scratch() as sc:
        src, dst = SL.build(sc.root, 15, 0, 0, 0, dstate, pstate)
        bd, bs = SL.snap(dst.path), SL.snap(src.path)
        if entry == 0:
            call = lambda: dst.sync(src, doc_sync=SL.doc_sync(didx), check_schema=False, strategy=SL.strategy(2))
        else:
            sj, dj = src.open_job(SL.SPS[0]), dst.open_job(SL.SPS[0])
            call = lambda: dj.sync(sj, doc_sync=SL.doc_sync(didx), strategy=SL.strategy(2))
        out = SL.outcome(call)
        ad = SL.snap(dst.path)
        problems = []
        if isinstance(out, tuple):
            problems.append(("unexpected exception", out))
        jid = src.open_job(SL.SPS[0]).id
        docs_ = [("workspace/%s/signac_job_document.json" % jid, dstate)] + ([("signac_project_document.json", pstate)] if entry == 0 else [])
        conflicting = [(k, stt) for k, stt in docs_ if stt in (5, 6)]
        expect = SL.doc_overwrites(didx)
        if conflicting and expect is None and didx == 0:
            if out != "doc":
                problems.append(("document conflict without key strategy did not raise DocumentSyncConflict", out))
        for k, stt in docs_:
            before = _json.loads(bd[k]) if bd.get(k) else {}
            after = _json.loads(ad[k]) if ad.get(k) else {}
            if out == "doc":
                # the document being synchronised when the conflict was raised is rolled back exactly; documents synchronised earlier in the
                # same call (the project document precedes the job documents) may legitimately have been merged already
                first_conflict = [kk for kk, s_ in ([("signac_project_document.json", pstate)] if entry == 0 else []) + [("workspace/%s/signac_job_document.json" % jid, dstate)] if s_ in (5, 6)][0]
                if k == first_conflict and after != before:
                    problems.append(("DocumentSyncConflict raised but the destination document changed", k, before, after))
            elif out == "ok" and stt in (5, 6) and didx != 5:
                for ck in SL.CONFLICT_KEYS[stt]:
                    bval, aval = SL.flat(before).get(ck), SL.flat(after).get(ck)
                    sval = SL.flat(_json.loads(bs[k])).get(ck)
                    if expect is True and aval != sval:
                        problems.append(("conflicting key not overwritten although selected", k, ck))
                    if expect is False and aval != bval:
                        problems.append(("conflicting key overwritten although not selected", k, ck))
        if any(k.endswith("~") for k in ad):
            problems.append(("backup file left", [k for k in ad if k.endswith("~")]))
        if SL.snap(src.path) != bs:
            problems.append(("source changed",))
        return out, problems


def h_doc_rollback(entry: int, dstate: int, pstate: int, didx: int):
    assert 0 <= entry <= 1 and 0 <= dstate <= 6 and 0 <= pstate <= 2 and 0 <= didx <= 6 and didx != 5
    assert dstate in (5, 6) or pstate == 2
    fresh_path()
    entry, dstate, pstate, didx = ci(entry, 0, 1), ci(dstate, 0, 6), pick([0, 4, 5], pstate), ci(didx, 0, 6)
    with nt():
        out, problems = _doc_rollback_case(entry, dstate, pstate, didx)
    reached()
    assert not problems


# ------------------------------------------------------------------------------------------------ E1 on E4: symbolic modification times
class _PathProxy:
    """os.path as seen by signac.sync, with getmtime answering from a table of (possibly symbolic) numbers"""

    def __init__(self, table):
        self._t = table

    def __getattr__(self, a):
        return getattr(os.path, a)

    def getmtime(self, p):
        with nt():
            key = os.path.realpath(p)
            hit = key in self._t
        if hit:
            entered("stub:getmtime")
            return self._t[key]
        return os.path.getmtime(p)


class _OsProxy:
    def __init__(self, table):
        self.path = _PathProxy(table)

    def __getattr__(self, a):
        return getattr(os, a)


def h_mtime_sym(ms: int, md: int, entry: int, nested: bool):
    """FileSync.update on a file that differs on both sides, with ARBITRARY integer modification times (the two getmtime answers are
    symbolic; the comparison inside the real strategy is decided by the solver): overwritten iff the source is strictly newer."""
    assert ms >= 0 and md >= 0 and 0 <= entry <= 1
    fresh_path()
    entry, nested = ci(entry, 0, 1), cb(nested)
    with nt():
        sc = SL.Scratch().__enter__()
        src, dst = SL.build(sc.root, 15, 0 if nested else 4, 4 if nested else 0, 1, 0, 0)
        rel = "sub/g" if nested else "f"
        sj, dj = src.open_job(SL.SPS[0]), dst.open_job(SL.SPS[0])
        table = {os.path.realpath(sj.fn(rel)): ms, os.path.realpath(dj.fn(rel)): md}
        before_dst = open(dj.fn(rel), "rb").read()
        src_bytes = open(sj.fn(rel), "rb").read()
        bs = SL.snap(src.path)
        real_os = SY.os
        SY.os = _OsProxy(table)
    try:
        if entry == 0:
            dst.sync(src, strategy=FileSync.update, recursive=True, check_schema=False)
        else:
            dj.sync(sj, strategy=FileSync.update, recursive=True)
        raised = False
    except Exception:  # noqa
        raised = True
    finally:
        with nt():
            SY.os = real_os
    with nt():
        after = open(dj.fn(rel), "rb").read()
        src_same = SL.snap(src.path) == bs
        sc.__exit__(None, None, None)
    reached()
    assert not raised
    assert src_same
    if ms > md:
        assert after == src_bytes
    else:
        assert after == before_dst


def h_mtime_sym__reach(ms: int, md: int, entry: int, nested: bool):
    assert ms >= 0 and md >= 0 and 0 <= entry <= 1
    fresh_path()
    entry, nested = ci(entry, 0, 1), cb(nested)
    with nt():
        sc = SL.Scratch().__enter__()
        src, dst = SL.build(sc.root, 15, 4, 0, 1, 0, 0)
        sj, dj = src.open_job(SL.SPS[0]), dst.open_job(SL.SPS[0])
        table = {os.path.realpath(sj.fn("f")): ms, os.path.realpath(dj.fn("f")): md}
        src_bytes = open(sj.fn("f"), "rb").read()
        real_os = SY.os
        SY.os = _OsProxy(table)
    try:
        dj.sync(sj, strategy=FileSync.update, recursive=True)
    finally:
        with nt():
            SY.os = real_os
    with nt():
        after = open(dj.fn("f"), "rb").read()
        sc.__exit__(None, None, None)
    assert after != src_bytes   # twin: an overwrite (source newer) is reachable


HARNESSES = [
    dict(name="h_file_iff", timeout=(600, 1500), parts=(6, 6), unblock=True),
    dict(name="h_doc_rollback", timeout=(600, 1500), unblock=True),
    dict(name="h_bykey", twin="h_bykey__reach", timeout=(400, 900), parts=(16, 16)),
    dict(name="h_bykey_mixed", timeout=(200, 400)),
    dict(name="h_update", timeout=(200, 400)),
    dict(name="h_mtime_sym", twin="h_mtime_sym__reach", timeout=(300, 600), unblock=True),
]
