"""C05 — job and project documents are faithful persistent dicts; buffering is transparent.

E2: the real Job.document / Project.document / signac.buffered stack (synced_collections JSON backend + serialized file buffer) natively on MemFS
(MemFS stat supplies size and a logical mtime, which the buffer's metadata check compares). Symbolic: the operation sequence (opcode, argument),
the handle pattern, the buffering plan and the target document."""
import copy, json
import signac
from vflib import memfs, refs, ws
from vflib.hutil import pick, reached, part_ok, kf_filter, spy, tier, fresh_path, nt, ci, cb, reset_buffers, discard
import signac.job as J
import signac.project as P

E2 = True
spy(J.Job, "remove", "signac.job.Job.remove")
CODE = ["signac.job.Job.document (getter/setter) / doc / remove / _initialize_lazy_properties", "signac.project.Project.document (getter/setter)", "signac.buffered / signac.JSONDict (aliases in signac/__init__.py)",
        "synced_collections BufferedJSONAttrDict (dependency, exercised as is)"]
BOUNDS = {"sequence": "2 operations (quick) / 3 with a typed first operation (thorough) from 14 opcodes x 4 arguments: item set, attribute set, delete, update, setdefault, pop, clear, reset, whole assignment, nested item set, "
                      "list append, assignment from another handle's document object, assignment of an invalid value, job.remove()",
          "handles": "two independent handles on the same job / two Project objects on the same project; pattern same / alternating", "buffering": "none / whole sequence / first operation only / nested blocks with capacity 0",
          "values": "1, None, {'k2': 0}, [0]; keys k, l"}
OUTSIDE = ["a state point change inside a buffered block after buffered document writes (the buffered data stays keyed by the old path; flush fails with BufferedError)", "job.remove() inside a buffered block with capacity 0 (forced flush into the removed directory raises BufferedError)", "concurrent external modification during a buffered block (documented as unsupported)", "buffer capacities other than 0 and the default", "H5 stores", "reads through a second handle inside a buffered block"]
STUBS = ["MemFS incl. stat() with logical mtime (validated against tmpfs on every run; counterexamples replayed on the real file system)"]
ASSUMPTIONS = []

ARGS = [("k", 1), ("k", {"k2": 0}), ("l", [0]), ("k", None)]
NOPS = 14


def _apply_model(m, op, key, val):
    """plain dict semantics; returns (expected exception name or None). m is {'doc': dict or None}"""
    d = m["doc"]
    cur = {} if d is None else d
    if op in (0, 1):
        cur[key] = copy.deepcopy(val)
    elif op == 2:
        if key not in cur:
            return "KeyError"
        del cur[key]
    elif op == 3:
        cur.update({key: copy.deepcopy(val), "u": 2})
    elif op == 4:
        cur.setdefault(key, copy.deepcopy(val))
    elif op == 5:
        cur.pop(key, None)   # the synced dict's pop() has a default of None (no KeyError); the resulting VALUE is what the property is about
    elif op == 6:
        cur.clear()
    elif op in (7, 8):
        cur = {key: copy.deepcopy(val)}
    elif op == 9:
        if not isinstance(cur.get("k"), dict):
            return "skip"
        cur["k"]["k2"] = copy.deepcopy(val)
    elif op == 10:
        if not isinstance(cur.get("l"), list):
            return "skip"
        cur["l"].append(copy.deepcopy(val))
    elif op == 11:
        pass  # assigning the same document (through another handle's object) changes nothing
    elif op == 12:
        return "InvalidKeyError"
    elif op == 13:
        m["doc"] = None
        return None
    m["doc"] = cur
    return None


class _Target:
    """two handles on one document (job or project)"""

    def __init__(self, sim, kind):
        self.sim, self.kind = sim, kind
        pr = sim.pr["/p"]
        if kind == 0:
            self.owners = [pr.open_job({"a": 0}), memfs.mkproject(sim.fs, "/p").open_job({"a": 0})]
            self.fn = self.owners[0].path + "/signac_job_document.json"
        else:
            self.owners = [pr, memfs.mkproject(sim.fs, "/p")]
            self.fn = "/p/signac_project_document.json"

    def doc(self, h):
        return self.owners[h].document

    def apply(self, h, op, key, val):
        o = self.owners[h]
        d = o.document
        val = copy.deepcopy(val)
        if op == 0:
            d[key] = val
        elif op == 1:
            setattr(d, key, val)
        elif op == 2:
            del d[key]
        elif op == 3:
            d.update({key: val, "u": 2})
        elif op == 4:
            d.setdefault(key, val)
        elif op == 5:
            d.pop(key)
        elif op == 6:
            d.clear()
        elif op == 7:
            d.reset({key: val})
        elif op == 8:
            o.document = {key: val}
        elif op == 9:
            d["k"]["k2"] = val
        elif op == 10:
            d["l"].append(val)
        elif op == 11:
            o.document = self.owners[1 - h].document
        elif op == 12:
            o.document = {"bad.key": 1}
        elif op == 13:
            if self.kind == 0:
                o.remove()

    def file(self):
        raw = self.sim.fs.get(self.fn)
        return None if raw is None else json.loads(raw)


def _run(kind, ops, hpat, plan, check_each):
    """returns (ok, problems, final file content, model)"""
    reset_buffers()
    s = ws.Sim(paths=("/p",))
    problems = []
    try:
        s.add_job("/p", {"a": 0})
        s.add_job("/p", {"a": 1}, doc={"other": 1})
        t = _Target(s, kind)
        m = {"doc": None}
        ctxs = []
        stale = set()   # handles whose job was removed under them by the other handle and that have not been used since

        def enter(cap=None):
            c = signac.buffered() if cap is None else signac.buffered(cap)
            c.__enter__()
            ctxs.append(c)

        def leave():
            ctxs.pop().__exit__(None, None, None)

        if plan == 1:
            enter()
        elif plan == 2:
            enter()
        elif plan == 3:
            enter()
            enter(0)
        for n, (op, a) in enumerate(ops):
            key, val = ARGS[a]
            h = 0 if hpat == 0 else n % 2
            if op == 13 and kind == 1:
                continue
            m2 = copy.deepcopy(m)
            exp = _apply_model(m2, op, key, val)
            if exp == "skip":
                continue
            got = None
            try:
                t.apply(h, op, key, val)
            except Exception as e:  # noqa
                got = type(e).__name__
            if exp is None:
                m = m2
            stale.discard(h)
            if op == 13:
                stale.add(1 - h)
            if got != exp:
                problems.append((n, op, a, "expected", exp, "got", got))
                break
            if check_each:
                want = m["doc"] or {}
                # the writing handle sees the block's own writes
                seen = t.doc(h)()
                if op == 13:
                    seen = {}   # re-opening the document after remove() re-initialises the job by design
                    m = {"doc": None}
                if seen != want and not (op == 13):
                    problems.append((n, "writing handle reads", seen, "model", want))
                if not ctxs:
                    other = t.doc(1 - h)() if (1 - h) not in stale else want   # a handle whose job was removed under it is not an observer of the document
                    f = t.file()
                    if other != want:
                        problems.append((n, "other handle reads", other, "model", want))
                    if (f or {}) != want:
                        problems.append((n, "file holds", f, "model", want))
            if plan == 2 and n == 0:
                leave()
            if plan == 3 and n == 0:
                leave()
        while ctxs:
            leave()
        final = t.file()
        want = m["doc"] or {}
        if (final or {}) != want:
            problems.append(("final file", final, "model", want))
        for hh in (0, 1):
            if hh not in stale and t.doc(hh)() != want:
                problems.append(("final handle", hh, t.doc(hh)(), want))
        stray = ws.stray_files(s.fs, "/p")
        if stray:
            problems.append(("stray files", stray))
        tree = {k: v for k, v in s.fs.snapshot("/p").items()}
    finally:
        s.close()
        reset_buffers()
    return (not problems), problems, tree


def _case(kind, ops, hpat, plan):
    ok, problems, tree = _run(kind, ops, hpat, plan, True)
    if ok and plan:
        ok0, p0, tree0 = _run(kind, ops, hpat, 0, False)
        def norm(t):
            # documents are compared as JSON values; an absent document file and one holding {} are the same (empty) document
            out = {k: (json.loads(v) if v is not None and k.endswith(".json") else v) for k, v in t.items()}
            return {k: v for k, v in out.items() if not (k.endswith("_document.json") and v == {})}
        if norm(tree) != norm(tree0):
            ok = False
            problems.append(("buffered run leaves different files than the unbuffered run", [k for k in set(norm(tree)) | set(norm(tree0)) if norm(tree).get(k, "<absent>") != norm(tree0).get(k, "<absent>")]))
    return ok, problems


def two_handles_one_block(kind, plan, hpat, o0, a0, o1, a1, o2, a2, n):
    """known-finding predicate: the WHOLE sequence runs inside one buffered block, the operations alternate between two handles on the same
    document, and either the first operation assigns the document from the other handle's document object or the sequence leaves the
    (initially absent) document empty although an earlier operation made it non-empty"""
    if not (plan == 1 and hpat == 1):
        return False
    if o0 == 11:
        return True
    m = {"doc": None}
    nonempty = False
    for i, (o, a) in enumerate(((o0, a0), (o1, a1), (o2, a2))):
        if i >= n:
            break
        if o == 13 and kind == 1:
            continue
        m2 = copy.deepcopy(m)
        key, val = pick(ARGS, a)
        e = _apply_model(m2, ci(o, 0, NOPS - 1), key, val)
        if e is None:
            m = m2
        if m["doc"]:
            nonempty = True
    return nonempty and not m["doc"]


def collection_to_none(kind, o0, a0, o1, a1, o2, a2, n):
    """known-finding predicate: an item/attribute set, update(), reset() or whole assignment puts None under 'k' while 'k' currently holds a mapping or a list"""
    m = {"doc": None}
    for i, (o, a) in enumerate(((o0, a0), (o1, a1), (o2, a2))):
        if i >= n:
            break
        if o == 13 and kind == 1:
            continue
        oc = ci(o, 0, NOPS - 1)
        if a == 3 and oc in (0, 1, 3, 7, 8) and isinstance((m["doc"] or {}).get("k"), (dict, list)):
            return True
        m2 = copy.deepcopy(m)
        key, val = pick(ARGS, a)
        if _apply_model(m2, oc, key, val) is None:
            m = m2
    return False


def h_ops(kind: int, o0: int, a0: int, o1: int, a1: int, o2: int, a2: int, n: int, hpat: int, plan: int):
    assert 0 <= kind <= 1 and 0 <= o0 < NOPS and 0 <= o1 < NOPS and 0 <= o2 < NOPS and 0 <= a0 < 4 and 0 <= a1 < 4 and 0 <= a2 < 4 and 2 <= n <= 3 and 0 <= hpat <= 1 and 0 <= plan <= 3
    assert part_ok(o1 + o0)
    assert tier() != "quick" or ((kind == 0 or plan <= 1) and (hpat == 0 or plan <= 1))
    assert not (plan == 3 and (o0 == 13 or o1 == 13 or (n == 3 and o2 == 13)))   # job.remove() inside a capacity-0 buffered block: outside the claim
    assert (n == 3 or (o2 == 0 and a2 == 0))
    assert n == 2 if tier() == "quick" else (n == 2 or (o0 == 0 and a0 < 3))
    fresh_path()
    kind, n, hpat, plan = ci(kind, 0, 1), ci(n, 2, 3), ci(hpat, 0, 1), ci(plan, 0, 3)
    ops = [(ci(o0, 0, NOPS - 1), ci(a0, 0, 3)), (ci(o1, 0, NOPS - 1), ci(a1, 0, 3)), (ci(o2, 0, NOPS - 1), ci(a2, 0, 3))]
    with nt():
        flat = [x for o in ops for x in o]
        keep = kf_filter("C05.collection_to_none", collection_to_none(kind, *flat, n)) and kf_filter("C05.two_handles_one_block", two_handles_one_block(kind, plan, hpat, *flat, n))
    if not keep:
        discard("known-finding partition")
    with nt():
        r = _case(kind, ops[:n], hpat, plan)
    reached()
    assert r[0]


def h_ops__reach(kind: int, o0: int, a0: int, o1: int, a1: int, o2: int, a2: int, n: int, hpat: int, plan: int):
    assert 0 <= kind <= 1 and 0 <= o0 < NOPS and 0 <= o1 < NOPS and 0 <= a0 < 4 and 0 <= a1 < 4 and 0 <= plan <= 3
    ops = [(ci(o0, 0, NOPS - 1), ci(a0, 0, 3)), (ci(o1, 0, NOPS - 1), ci(a1, 0, 3))]
    with nt():
        m = {"doc": None}
        e0 = _apply_model(m, ops[0][0], *ARGS[ops[0][1]])
        e1 = _apply_model(m, ops[1][0], *ARGS[ops[1][1]])
    assert not (ops[1][0] == 9 and e1 is None)  # twin: a nested edit of an existing mapping is reachable


def _lifecycle_case(ev, w, plan, sib=0):
    """document handle obtained, then remove() or a re-key, then a write through a NEW handle request: no directory of the old id reappears;
    the document file is exactly signac_job_document.json under the CURRENT id"""
    reset_buffers()
    s = ws.Sim(paths=("/p", "/q"))
    problems = []
    try:
        job = s.pr["/p"].open_job({"a": 0}).init()
        old_id = job.id
        if ev == 2:
            # document used, job moved to another project, document used again through the same handle
            job.document["x"] = 1
            job.move(s.pr["/q"])
            job.document["y"] = w
            snap_p, snap_q = s.fs.snapshot("/p/workspace"), s.fs.snapshot("/q/workspace")
            if snap_p:
                problems.append(("source workspace not empty after move + document write", sorted(snap_p)[:3]))
            raw = snap_q.get(old_id + "/signac_job_document.json")
            if raw is None or json.loads(raw) != {"x": 1, "y": w}:
                problems.append(("document after move", raw))
            if job.document.filename != f"/q/workspace/{old_id}/signac_job_document.json":
                problems.append(("document filename after move", job.document.filename))
            return (not problems), problems
        if ev in (3, 4):
            # Job.clear() / Job.reset() empty the document: inside a buffered block whose writes are not on disk yet, and as seen by a
            # second, independent handle that had already loaded the document
            other = s.pr["/p"].open_job({"a": 0})
            if sib:
                job.document["pre"] = 0
                _ = other.document()          # the second handle has loaded the pre-state
            ctx = None
            if plan:
                ctx = signac.buffered()
                ctx.__enter__()
            job.document["x"] = 1
            (job.clear if ev == 3 else job.reset)()
            inside = dict(job.document())
            if inside != {}:
                problems.append(("document not empty right after clear()/reset()", inside))
            if ctx:
                ctx.__exit__(None, None, None)
            seen = dict(other.document())
            if seen != {}:
                problems.append(("second handle still sees the old document after clear()/reset()", seen))
            other.document["y"] = w
            raw = s.fs.get(job.path + "/signac_job_document.json")
            if raw is None or json.loads(raw) != {"y": w}:
                problems.append(("document file after clear()/reset() and a write through the second handle", raw))
            return (not problems), problems
        if ev == 6:
            # a TRANSIENT I/O fault while the job directory is created on the first document access of a handle to a new job (quota, a
            # briefly read-only workspace); once the fault is gone the same handle is used again: the document is a usable persistent dict
            from vflib.hutil import FaultPlan
            import errno as _errno
            fresh = s.pr["/p"].open_job({"a": 7})
            s.fs.hook = FaultPlan(3, 0, err=[_errno.EIO, _errno.ENOSPC][w], only=lambda name, args: name in ("mkdir", "makedirs"))
            failed = False
            try:
                fresh.document["x"] = 1
            except OSError:
                failed = True
            s.fs.hook = None
            ctx = None
            if plan:
                ctx = signac.buffered()
                ctx.__enter__()
            try:
                fresh.document["y"] = w
                inside = dict(fresh.document())
                if ctx:
                    ctx.__exit__(None, None, None)
                raw = s.fs.get(fresh.path + "/signac_job_document.json")
                want_doc = {"y": w} if failed else {"x": 1, "y": w}
                if inside != want_doc or raw is None or json.loads(raw) != want_doc:
                    problems.append(("document after a transient fault on first access", inside, raw, failed))
            except Exception as e:  # noqa
                problems.append(("after a transient fault on first access the document is unusable", type(e).__name__, str(e)[:80]))
            return (not problems), problems
        if ev == 5:
            # the job is removed through ANOTHER handle, then remove() is called on this (initialised, document not yet used) handle
            # as well - a no-op - and then its document is written: the job is re-created and the document is exactly the write
            other = s.pr["/p"].open_job({"a": 0})
            if sib:
                job = s.pr["/p"].open_job(id=old_id)        # a handle from a look-up by id (directory known to exist)
            other.remove()
            job.remove()
            ctx = None
            if plan:
                ctx = signac.buffered()
                ctx.__enter__()
            job.document["y"] = w
            inside = dict(job.document())
            if ctx:
                ctx.__exit__(None, None, None)
            raw = s.fs.get(f"/p/workspace/{old_id}/signac_job_document.json")
            if inside != {"y": w} or raw is None or json.loads(raw) != {"y": w}:
                problems.append(("document after remove() through two handles and a write", inside, raw))
            if dict(s.pr["/p"].open_job({"a": 0}).document()) != {"y": w}:
                problems.append(("fresh handle does not see the document",))
            return (not problems), problems
        ctx = None
        if plan:
            ctx = signac.buffered()
            ctx.__enter__()
        job.document["x"] = 1
        writer = copy.copy(job) if sib else job     # sib: a shallow copy taken AFTER the document was first used shares the document object
        if ev == 0 and sib == 2:
            # the job is removed and re-created through the COPY; the original handle (which has read the document) writes afterwards
            writer.remove()
            writer.init()
            writer = job
            want_doc, cur = {"y": w}, {"a": 0}
        elif ev == 0:
            job.remove()
            want_doc, cur = {"y": w}, {"a": 0}
        else:
            job.statepoint["a"] = 1
            want_doc, cur = {"x": 1, "y": w}, {"a": 1}
        if sib == 1 and ev == 0:
            writer.init()      # the job is re-created through the surviving copy before its document is used again
        writer.document["y"] = w
        if ctx:
            ctx.__exit__(None, None, None)
        cur_id = refs.canon_id(cur)
        snap = s.fs.snapshot("/p/workspace")
        dirs = {k for k in snap if "/" not in k}
        if dirs != {cur_id}:
            problems.append(("directories", sorted(dirs), cur_id))
        raw = snap.get(cur_id + "/signac_job_document.json")
        if raw is None or json.loads(raw) != want_doc:
            problems.append(("document file", raw, want_doc))
        if job.document.filename != f"/p/workspace/{cur_id}/signac_job_document.json":
            problems.append(("filename", job.document.filename))
        if [k for k in snap if k.endswith(".json") and k.split("/")[-1] not in ("signac_job_document.json", "signac_statepoint.json")]:
            problems.append(("unexpected json files", sorted(snap)))
    finally:
        s.close()
        reset_buffers()
    return (not problems), problems


def h_lifecycle(ev: int, w: int, plan: int, sib: int):
    assert 0 <= ev <= 6 and 0 <= w <= 1 and 0 <= plan <= 1 and 0 <= sib <= 2 and (ev != 2 or not sib) and (sib < 2 or (ev == 0 and plan == 0))
    assert not (ev in (1, 2) and plan == 1)  # a state point change inside a buffered block is not a document operation (outside the claim; see DESIGN §6)
    fresh_path()
    ev, w, plan, sib = ci(ev, 0, 6), ci(w, 0, 1), ci(plan, 0, 1), ci(sib, 0, 2)
    with nt():
        r = _lifecycle_case(ev, w, plan, sib)
    reached()
    assert r[0]


HARNESSES = [
    dict(name="h_ops", twin="h_ops__reach", timeout=(900, 3000), parts=(16, 16)),
    dict(name="h_lifecycle", timeout=(200, 400)),
]


def extra_checks(tier_):
    return ws.e2_extra(tier_)
