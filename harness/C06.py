"""C06 — find_jobs == per-job reference evaluator (E1: CrossHair over the real Project._find_job_ids / _SearchIndexer / filterparse).

The corpus is injected at Project._build_index / _job_dirs (the two functions that read the workspace); everything from
_find_job_ids downwards (_add_prefix, parse_filter, _root_keys -> include_job_document decision, _SearchIndexer.find,
_find_result, _find_expression, build_index, _find_with_index_operator, _TypedSetDefaultDict, flattening) is the real code.
"""
import os
from typing import Optional

import signac.project as P
import signac._search_indexer as SI
import signac.filterparse as FP
from vflib import refs
from vflib.hutil import pick, reached, part_ok, kf_filter, spy, tier, fresh_path, nt, ci, cb

for _m, _a in ((SI._SearchIndexer, "find"), (SI._SearchIndexer, "_find_result"), (SI._SearchIndexer, "_find_expression"),
               (SI._SearchIndexer, "build_index"), (SI, "_find_with_index_operator"), (P, "_add_prefix"), (P, "_root_keys"), (P, "parse_filter")):
    spy(_m, _a, label=(getattr(_m, "__module__", None) or _m.__name__) + "." + (getattr(_m, "__qualname__", "") + "." if isinstance(_m, type) else "") + _a)
spy(P.Project, "_find_job_ids", "signac.project.Project._find_job_ids")

CODE = ["signac.project.Project._find_job_ids", "signac.filterparse._add_prefix/_root_keys/parse_filter", "signac._search_indexer._SearchIndexer.find/_find_result/_find_expression/build_index",
        "signac._search_indexer._find_with_index_operator", "signac._search_indexer._TypedSetDefaultDict/_float", "signac._utility._nested_dicts_to_dotted_keys/_to_hashable"]
BOUNDS = {"corpus": "2 jobs (quick) / 3 jobs in h_eq3 (thorough); each with key a in sp and key b in doc (or missing / no document)",
          "leaf domain": "D = {None, False, True, 0, 1, 2, 1.0, 1.5, 'a', 'b'} by symbolic index (solver-enumerated); ints in [-2,3] fully symbolic for order operators",
          "shapes": "missing / scalar / one-element list / nested mapping {c: v}", "filters": "one harness per atomic template and per logical template (depth <= 3)"}
OUTSIDE = ["$where (not in the documented grammar)", "arbitrary regexes (fixed pattern list)", "symbolic float operands and $near tolerances (concrete table)", "corpora > 3 jobs",
           "order comparisons between values Python cannot order (excluded by the property)"]
STUBS = ["kernel harnesses: Project._build_index / Project._job_dirs yield the symbolic corpus; h_end2end: the real _build_index reads state point and document files from MemFS"]
ASSUMPTIONS = ["operators other than $exists:false apply only to jobs that have the key (signac's documented behaviour)", "equality is Python == on JSON values with list == tuple"]

D = [True, 1, 1.0, "a", None, False, 0, 2, 1.5, "b"]
NUM = [False, True, 0, 1, 2, 1.0, 1.5, -1]


def mk(corpus):
    pr = P.Project.__new__(P.Project)

    def _build_index(include_job_document=False):
        for jid, (sp, doc) in corpus.items():
            d = {"sp": sp}
            if include_job_document and doc is not None:
                d["doc"] = doc
            yield jid, d

    pr._build_index = _build_index
    pr._job_dirs = lambda: iter(list(corpus))
    return pr


def expected(corpus, flt):
    return {j for j, (sp, doc) in corpus.items() if refs.match({"sp": sp, "doc": doc if doc is not None else {}}, flt)}


def agree(c, flt):
    """run the real query code natively (all values are concrete after pick/ci/cb) and compare with the per-job oracle"""
    with nt():
        want = expected(c, flt)
        try:
            got = set(mk(c)._find_job_ids(flt))
        except (TypeError, KeyError, ValueError, AttributeError):
            return False          # a well-typed query over a valid corpus must not fail (whatever the OTHER jobs hold)
        return got == want


def shaped(shape, v):
    """0 missing, 1 scalar, 2 list, 3 nested mapping"""
    if shape == 0:
        return {}
    if shape == 1:
        return {"a": v}
    if shape == 2:
        return {"a": [v]}
    return {"a": {"c": v}}


def corpus2(ns, d0, d1):
    """the same content placed in the sp or in the doc namespace"""
    if ns == 0:
        return {"j0": (d0, None), "j1": (d1, {})}
    return {"j0": ({"z": 0}, d0), "j1": ({"z": 1}, d1)}


def pfx(ns, key, style):
    """key spelling for the namespace: ns 0 = state point (style 0: bare, 1: 'sp.' prefix), ns 1 = document"""
    if ns == 1:
        return "doc." + key
    return key if style == 0 else "sp." + key


def bool_int_same_slot(*vals):
    """known-finding predicate: a bool and an int/float of equal value among the values (they share one index slot)"""
    for x in vals:
        for y in vals:
            if isinstance(x, bool) and not isinstance(y, bool) and isinstance(y, (int, float)) and x == y:
                return True
    return False


# ------------------------------------------------------------------------------------------------ equality
def h_eq_values(i0: int, i1: int, q: int, ns: int, style: int):
    """implicit equality and $eq/$ne over every pair of leaf values and every operand (type mixes: bool/int/float/str/None)"""
    assert 0 <= i0 < 10 and 0 <= i1 < 10 and 0 <= q < 10 and 0 <= ns <= 1 and 0 <= style <= 2 and part_ok(q)
    fresh_path()
    v0, v1, qq, ns, style = pick(D, i0), pick(D, i1), pick(D, q), ci(ns, 0, 1), ci(style, 0, 2)
    c = corpus2(ns, {"a": v0}, {"a": v1})
    k = pfx(ns, "a", style % 2)
    flt = {k: qq} if style == 0 else ({k: {"$eq": qq}} if style == 1 else {k + ".$ne": qq})
    ok = agree(c, flt)
    reached()
    assert ok


def h_eq_values__reach(i0: int, i1: int, q: int, ns: int, style: int):
    assert 0 <= i0 < 10 and 0 <= i1 < 10 and 0 <= q < 10 and 0 <= ns <= 1 and 0 <= style <= 2
    fresh_path()
    v0, v1, qq = pick(D, i0), pick(D, i1), pick(D, q)
    c = corpus2(ns, {"a": v0}, {"a": v1})
    res = set(mk(c)._find_job_ids({pfx(ns, "a", 0): qq}))
    assert not (len(res) == 1 and ns == 1)  # twin: a doc-namespace query selecting exactly one job must be reachable


def h_eq3(i0: int, i1: int, i2: int, q: int, kind: int):
    """thorough: three jobs (index slots shared by three values), equality / $type / $in / $ne"""
    assert 0 <= i0 < 10 and 0 <= i1 < 10 and 0 <= i2 < 10 and 0 <= q < 10 and 0 <= kind <= 3 and part_ok(q)
    fresh_path()
    v0, v1, v2, qq, kind = pick(D, i0), pick(D, i1), pick(D, i2), pick(D, q), ci(kind, 0, 3)
    c = {"j0": ({"a": v0}, None), "j1": ({"a": v1}, {}), "j2": ({"a": [v2] if kind == 3 else v2}, None)}
    if kind == 0:
        flt = {"a": qq}
    elif kind == 1:
        flt = {"a": {"$type": pick(TYPES, q % 6)}}
    elif kind == 2:
        flt = {"a": {"$in": [qq, -1.0]}}
    else:
        flt = {"$or": [{"a": {"$ne": qq}}, {"a": [qq]}]}
    ok = agree(c, flt)
    reached()
    assert ok


def h_eq_shapes(s0: int, s1: int, fs: int, i0: int, i1: int, q: int, ns: int):
    """shapes: missing / scalar / list / nested mapping in the jobs x scalar / list / dotted / nested-mapping spelling in the filter"""
    assert 0 <= s0 <= 3 and 0 <= s1 <= 3 and 0 <= fs <= 4 and 0 <= i0 <= 2 and 0 <= i1 <= 2 and 0 <= q <= 2 and 0 <= ns <= 1 and part_ok(fs)
    fresh_path()
    T = [0, 1, "a"]
    v0, v1, qq, ns, s0, s1, fs = pick(T, i0), pick(T, i1), pick(T, q), ci(ns, 0, 1), ci(s0, 0, 3), ci(s1, 0, 3), ci(fs, 0, 4)
    c = corpus2(ns, shaped(s0, v0), shaped(s1, v1))
    k = pfx(ns, "a", 0)
    if fs == 0:
        flt = {k: qq}
    elif fs == 1:
        flt = {k: [qq]}
    elif fs == 2:
        flt = {k + ".c": qq}
    elif fs == 3:
        flt = {k: {"c": qq}}
    else:
        flt = {k: {"c": {"$ne": qq}}}
    ok = agree(c, flt)
    reached()
    assert ok


# ------------------------------------------------------------------------------------------------ order operators
OPS = ["$gt", "$gte", "$lt", "$lte", "$eq", "$ne"]


def h_cmp_int(op: int, v0: int, v1: int, q: int, has0: bool, has1: bool):
    """order operators with genuinely symbolic ints, traced end to end (the operand stays symbolic through the comparison)"""
    assert 0 <= op < 6 and -1 <= v0 <= 1 and -1 <= v1 <= 1 and (-1 <= q <= 1 if tier() == "quick" else -3 <= q <= 3) and part_ok(op)
    fresh_path()
    c = corpus2(0, {"a": v0} if has0 else {}, {"a": v1} if has1 else {"b": v1})
    k = "sp.a"
    o = pick(OPS, op)
    flt = {k: {o: q}}
    res = set(mk(c)._find_job_ids(flt))
    reached()
    assert res == expected(c, flt)


def h_cmp_int__reach(op: int, v0: int, v1: int, q: int, has0: bool, has1: bool):
    assert 0 <= op < 6 and -1 <= v0 <= 1 and -1 <= v1 <= 1 and -1 <= q <= 1
    fresh_path()
    c = corpus2(0, {"a": v0} if has0 else {}, {"a": v1} if has1 else {"b": v1})
    res = set(mk(c)._find_job_ids({"sp.a": {pick(OPS, op): q}}))
    assert res != {"j1"}


def h_cmp_num(op: int, i0: int, i1: int, q: int, ns: int, form: int):
    """order operators over the mixed numeric table (bool / int / int-valued float / other float), both namespaces, both operator spellings"""
    assert 0 <= op < 4 and 0 <= i0 < 8 and 0 <= i1 < 8 and 0 <= q < 8 and 0 <= ns <= 1 and 0 <= form <= 1 and part_ok(op)
    fresh_path()
    v0, v1, qq, ns, form = pick(NUM, i0), pick(NUM, i1), pick(NUM, q), ci(ns, 0, 1), ci(form, 0, 1)
    c = corpus2(ns, {"a": v0}, {"a": v1})
    k = pfx(ns, "a", form)
    flt = {k: {pick(OPS, op): qq}} if form == 0 else {k + "." + pick(OPS, op): qq}
    ok = agree(c, flt)
    reached()
    assert ok


# ------------------------------------------------------------------------------------------------ $in / $nin / $exists / $type / $regex / $near
def h_in(i0: int, i1: int, q0: int, q1: int, neg: bool, ns: int):
    assert 0 <= i0 < 10 and 0 <= i1 < 10 and 0 <= q0 < 10 and 0 <= q1 < 3 and 0 <= ns <= 1 and part_ok(q0)
    fresh_path()
    v0, v1, x, q1, ns, neg = pick(D, i0), pick(D, i1), pick(D, q0), ci(q1, 0, 2), ci(ns, 0, 1), cb(neg)
    c = corpus2(ns, {"a": v0}, {"a": [v1]} if q1 == 2 else {"a": v1})
    arg = [x, "zz"] if q1 == 0 else ([x, 1] if q1 == 1 else [x, [x]])
    flt = {pfx(ns, "a", 0): {"$nin" if neg else "$in": arg}}
    ok = agree(c, flt)
    reached()
    assert ok


def h_exists(s0: int, s1: int, flag: bool, form: int, ns: int, deep: bool):
    assert 0 <= s0 <= 3 and 0 <= s1 <= 3 and 0 <= form <= 1 and 0 <= ns <= 1
    fresh_path()
    s0, s1, ns, form, flag, deep = ci(s0, 0, 3), ci(s1, 0, 3), ci(ns, 0, 1), ci(form, 0, 1), cb(flag), cb(deep)
    c = corpus2(ns, shaped(s0, None), shaped(s1, 0))
    k = pfx(ns, "a.c" if deep else "a", 1)
    flt = {k: {"$exists": flag}} if form == 0 else {k + ".$exists": flag}
    ok = agree(c, flt)
    reached()
    assert ok


TYPES = ["int", "float", "bool", "str", "list", "null"]


def h_type(i0: int, i1: int, s0: int, s1: int, t: int, ns: int):
    """$type: whether a job matches must depend on its own value only (typed index slots)"""
    assert 0 <= i0 < 10 and 0 <= i1 < 10 and 1 <= s0 <= 3 and 1 <= s1 <= 3 and 0 <= t < 6 and 0 <= ns <= 1 and part_ok(t)
    assert kf_filter("C06.bool_int_same_slot", s0 == 1 and s1 == 1 and bool_int_same_slot(pick(D, i0), pick(D, i1)))
    fresh_path()
    v0, v1, ns, s0, s1 = pick(D, i0), pick(D, i1), ci(ns, 0, 1), ci(s0, 1, 3), ci(s1, 1, 3)
    c = corpus2(ns, shaped(s0, v0), shaped(s1, v1))
    flt = {pfx(ns, "a", 0): {"$type": pick(TYPES, t)}}
    ok = agree(c, flt)
    reached()
    assert ok


REGEX = ["a", "^b$", "a|b", ".", "^$", "[ab]+", "c"]
STRS = ["a", "b", "ab", "", 1, None, True, 1.5]


LM = [[{"x": 1, "y": 2}], [{"y": 2, "x": 1}], [{"x": 1, "y": 3}], [{"x": 1}], [[1, {"y": 2, "x": 1}]], [[1, {"x": 1, "y": 2}]],
      [{"b": [1]}], [{"b": {"c": 1}}], [{"b": {"c": [1, {"d": 2}]}}], 2]     # mappings inside lists that again contain lists / mappings; a plain scalar


def h_list_of_mappings(i0: int, i1: int, q: int, form: int, ns: int):
    """list values that contain mappings (hashed through _hashable_dict): equality must not depend on the key order inside the mapping"""
    assert 0 <= i0 < 10 and 0 <= i1 < 10 and 0 <= q < 10 and 0 <= form <= 3 and 0 <= ns <= 1 and part_ok(q)
    assert tier() != "quick" or i1 in (1, 2, 6, 8, 9)
    fresh_path()
    v0, v1, qq, form, ns = pick(LM, i0), pick(LM, i1), pick(LM, q), ci(form, 0, 3), ci(ns, 0, 1)
    c = corpus2(ns, {"a": v0}, {"a": v1})
    k = pfx(ns, "a", 0)
    flt = [{k: qq}, {k: {"$eq": qq}}, {k: {"$in": [qq, 5]}}, {"$not": {k: qq}}][form]
    ok = agree(c, flt)
    reached()
    assert ok


NUM2 = [False, True, 0, 0.0, 1, 1.0, -1, -1.0, -2, -2.0, 2, 1.5]


def h_type_num(i0: int, i1: int, t: int, kind: int):
    """typed index slots over numerically equal values of different type, including negative numbers and zero:
    $type / implicit equality / $in each depend on the job's own value only"""
    assert 0 <= i0 < 12 and 0 <= i1 < 12 and 0 <= t < 12 and 0 <= kind <= 2 and part_ok(kind)
    fresh_path()
    v0, v1, kind = pick(NUM2, i0), pick(NUM2, i1), ci(kind, 0, 2)
    c = corpus2(0, {"a": v0}, {"a": v1})
    if kind == 0:
        flt = {"a": {"$type": pick(["int", "float", "bool"], t % 3)}}
    elif kind == 1:
        flt = {"a": pick(NUM2, t)}
    else:
        flt = {"a": {"$in": [pick(NUM2, t), "zz"]}}
    ok = agree(c, flt)
    reached()
    assert ok


def h_regex(i0: int, i1: int, r: int, ns: int, lst: bool):
    assert 0 <= i0 < 8 and 0 <= i1 < 8 and 0 <= r < 7 and 0 <= ns <= 1
    fresh_path()
    v0, v1, ns, lst = pick(STRS, i0), pick(STRS, i1), ci(ns, 0, 1), cb(lst)
    c = corpus2(ns, {"a": [v0] if lst else v0}, {"a": v1})
    flt = {pfx(ns, "a", 0): {"$regex": pick(REGEX, r)}}
    ok = agree(c, flt)
    reached()
    assert ok


NEARV = [0, 1, 1.0, 1.0000000001, 1.1, 2, -1.5, 1e-10, -5e-10, 0.0]      # the last three: at / next to zero (relative tolerance never helps there)
NEARQ = [1, 1.0, [1.0], [1, 0.2], [1, 0.0, 0.11], [0, 1e-9, 1.0], [0, 0.5], [0.0, 1e-3], [1e-10, 0.5]]


def h_near(i0: int, i1: int, q: int, ns: int):
    assert 0 <= i0 < 10 and 0 <= i1 < 10 and 0 <= q < 9 and 0 <= ns <= 1
    fresh_path()
    ns = ci(ns, 0, 1)
    c = corpus2(ns, {"a": pick(NEARV, i0)}, {"a": pick(NEARV, i1)})
    flt = {pfx(ns, "a", 0): {"$near": pick(NEARQ, q)}}
    ok = agree(c, flt)
    reached()
    assert ok


# ------------------------------------------------------------------------------------------------ logical templates
def _atomA(kind, q):
    if kind == 0:
        return {"a": q}
    if kind == 1:
        return {"sp.a": {"$gt": q}}
    return {"a.$exists": q >= 1}


def _atomB(kind, r):
    if kind == 0:
        return {"doc.b": r}
    if kind == 1:
        return {"doc.b": {"$lte": r}}
    return {"doc": {"b": {"$ne": r}}}


def h_logic(tmpl: int, ka: int, kb: int, a0: int, a1: int, b0: int, b1: int, q: int, r: int, hasdoc: bool):
    """$and / $or / $not templates over one state point atom A and one document atom B: result == per-job evaluation
    (and therefore == intersection / union / complement of the operands' own results)"""
    assert 0 <= tmpl < 13 and 0 <= ka <= 2 and 0 <= kb <= 2 and 0 <= a0 <= 1 and 0 <= a1 <= 1 and 0 <= b0 <= 2 and 0 <= b1 <= 2 and 0 <= q <= 1 and 0 <= r <= 1
    assert part_ok(tmpl)
    assert kf_filter("C06.not_doc_root", tmpl in (3, 4, 5, 7, 8, 9))
    fresh_path()
    tmpl, ka, kb, a0, a1, b0, b1, q, r, hasdoc = ci(tmpl, 0, 12), ci(ka, 0, 2), ci(kb, 0, 2), ci(a0, 0, 1), ci(a1, 0, 1), ci(b0, 0, 2), ci(b1, 0, 2), ci(q, 0, 1), ci(r, 0, 1), cb(hasdoc)
    c = {"j0": ({"a": a0}, {"b": b0} if b0 < 2 else {}), "j1": ({"a": a1} if a1 < 1 or ka != 2 else {"x": 1}, ({"b": b1} if b1 < 2 else {}) if hasdoc else None)}
    A, B = _atomA(ka, q), _atomB(kb, r)
    if tmpl == 0:
        flt = {"$and": [A, B]}
    elif tmpl == 1:
        flt = {"$or": [A, B]}
    elif tmpl == 2:
        flt = {"$not": A}
    elif tmpl == 3:
        flt = {"$not": B}
    elif tmpl == 4:
        flt = {"$not": {"$or": [A, B]}}
    elif tmpl == 5:
        flt = {"$and": [A, {"$not": B}]}
    elif tmpl == 6:
        flt = dict(A)
        flt["$or"] = [B, {"a": 1 - q}]
    elif tmpl == 7:
        flt = {"$or": [{"$and": [A, B]}, {"$not": {"$and": [A, B]}}]}
    elif tmpl == 8:
        flt = dict(B)
        flt["$not"] = A
    elif tmpl == 9:
        flt = {"$and": [{"$or": [A, {"$not": A}]}, {"$not": {"$not": B}}]}
    elif tmpl == 10:
        flt = {"$or": [A, {"a": 7}], "$not": B}                    # $or and $not side by side in ONE mapping
    elif tmpl == 11:
        flt = {"$or": [{"a": 7}, {"a": 8}], "$not": B}             # ... with an $or part that selects nothing
    else:
        flt = dict(A)
        flt.update({"$or": [{"a": 7}, B], "$not": {"a": 9}, "$and": [{"$not": {"a": 8}}]})
    with nt():
        pr = mk(c)
        res = set(pr._find_job_ids(flt))
        ok = res == expected(c, flt)
        if tmpl == 0:
            ok = ok and res == set(pr._find_job_ids(A)) & set(pr._find_job_ids(B))
        elif tmpl == 1:
            ok = ok and res == set(pr._find_job_ids(A)) | set(pr._find_job_ids(B))
        elif tmpl == 2:
            ok = ok and res == set(c) - set(pr._find_job_ids(A))
        elif tmpl == 3:
            ok = ok and res == set(c) - set(pr._find_job_ids(B))
    reached()
    assert ok


def h_logic__reach(tmpl: int, ka: int, kb: int, a0: int, a1: int, b0: int, b1: int, q: int, r: int, hasdoc: bool):
    assert 0 <= tmpl < 10 and 0 <= ka <= 2 and 0 <= kb <= 2 and 0 <= a0 <= 1 and 0 <= a1 <= 1 and 0 <= b0 <= 2 and 0 <= b1 <= 2 and 0 <= q <= 1 and 0 <= r <= 1
    fresh_path()
    c = {"j0": ({"a": a0}, {"b": b0} if b0 < 2 else {}), "j1": ({"a": a1}, {"b": b1} if b1 < 2 else {})}
    res = set(mk(c)._find_job_ids({"$and": [_atomA(ka, q), _atomB(kb, r)]}))
    assert res != {"j1"}


# ------------------------------------------------------------------------------------------------ one key mentioned twice; key names that start like a namespace
VK = ["x", "y", None, 1.5]


def h_logic_samekey(tmpl: int, k0: int, k1: int, k2: int, n0: int, n1: int, n2: int, v: int, w: int):
    """compound filters that mention the SAME key in several sub-expressions (non-integer values: strings, None, a float), three jobs:
    every sub-expression is evaluated on the jobs' own data, however often and in whatever branch order the key is used"""
    assert 0 <= tmpl <= 5 and 0 <= k0 < 4 and 0 <= k1 < 4 and 0 <= k2 < 4 and 1 <= n0 <= 2 and 1 <= n1 <= 2 and 1 <= n2 <= 2 and 0 <= v < 4 and 0 <= w < 4 and part_ok(tmpl)
    assert tier() != "quick" or (k2 <= 1 and w <= 1)
    fresh_path()
    tmpl, n0, n1, n2 = ci(tmpl, 0, 5), ci(n0, 1, 2), ci(n1, 1, 2), ci(n2, 1, 2)
    K0, K1, K2, V, W = pick(VK, k0), pick(VK, k1), pick(VK, k2), pick(VK, v), pick(VK, w)
    c = {"j0": ({"kind": K0, "n": n0}, None), "j1": ({"kind": K1, "n": n1}, {"kind": K2}), "j2": ({"kind": K2, "n": n2}, {"kind": K0})}
    if tmpl == 0:
        flt = {"$or": [{"kind": V, "n": 1}, {"kind": V, "n": 2}]}
    elif tmpl == 1:
        flt = {"$or": [{"kind": V, "n": 1}, {"$not": {"kind": V}}]}
    elif tmpl == 2:
        flt = {"$and": [{"kind": V, "n": 1}, {"$or": [{"kind": V}, {"n": 2}]}]}
    elif tmpl == 3:
        flt = {"kind": V, "n": 1, "$or": [{"kind": W}, {"kind": V}]}
    elif tmpl == 4:
        flt = {"$not": {"$and": [{"kind": V, "n": 1}, {"kind": V}]}}
    else:
        flt = {"$or": [{"doc.kind": V, "n": 1}, {"doc.kind": V, "kind": W}, {"$not": {"doc.kind": V}}]}
    ok = agree(c, flt)
    reached()
    assert ok


KEYN = ["speed", "docs", "spin", "doc_id", "sp", "document"]


def h_keynames(kn: int, where: int, form: int, q: int, v0: int, v1: int):
    """state point / document keys whose NAMES merely start like a namespace prefix ('speed', 'docs', ...): unqualified keys mean the state point"""
    assert 0 <= kn < len(KEYN) and 0 <= where <= 1 and 0 <= form <= 4 and 0 <= q <= 2 and 0 <= v0 <= 2 and 0 <= v1 <= 2
    fresh_path()
    key, where, form, q, v0, v1 = pick(KEYN, kn), ci(where, 0, 1), ci(form, 0, 4), ci(q, 0, 2), ci(v0, 0, 2), ci(v1, 0, 2)
    if key in ("sp", "doc") and form == 0 and where == 0:
        key = key + "x"      # a bare 'sp' / 'doc' key IS the namespace
    d0, d1 = ({key: v0} if v0 < 2 else {}), ({key: v1} if v1 < 2 else {})
    c = {"j0": (d0, {"o": 1}), "j1": (d1, None)} if where == 0 else {"j0": ({"z": 0}, d0), "j1": ({"z": 1}, d1)}
    ns = "sp." if where == 0 else "doc."
    if form == 0:
        flt = {key: q} if where == 0 else {ns + key: q}
    elif form == 1:
        flt = {ns + key: q}
    elif form == 2:
        flt = {(key if where == 0 else ns + key) + ".$exists": q >= 1}
    elif form == 3:
        flt = {"$not": {(key if where == 0 else ns + key): q}}
    else:
        flt = {ns[:-1]: {key: {"$lte": q}}}
    ok = agree(c, flt)
    reached()
    assert ok


def h_independence(i0: int, i1: int, q: int, kind: int):
    """whether j0 matches does not depend on j1 existing (and vice versa)"""
    assert 0 <= i0 < 10 and 0 <= i1 < 10 and 0 <= q < 10 and 0 <= kind <= 3 and part_ok(kind)
    assert kf_filter("C06.bool_int_same_slot", kind == 1 and bool_int_same_slot(pick(D, i0), pick(D, i1)))
    fresh_path()
    v0, v1, qq, kind = pick(D, i0), pick(D, i1), pick(D, q), ci(kind, 0, 3)
    both = {"j0": ({"a": v0}, None), "j1": ({"a": v1}, None)}
    if kind == 0:
        flt = {"a": qq}
    elif kind == 1:
        flt = {"a": {"$type": pick(TYPES, q % 6)}}
    elif kind == 2:
        flt = {"a": {"$in": [qq, "zz"]}}
    else:
        flt = {"a": {"$ne": qq}}
    with nt():
        rb = set(mk(both)._find_job_ids(dict(flt)))
        r0 = set(mk({"j0": both["j0"]})._find_job_ids(dict(flt)))
        r1 = set(mk({"j1": both["j1"]})._find_job_ids(dict(flt)))
        ok = rb == r0 | r1
    reached()
    assert ok


# ------------------------------------------------------------------------------------------------ end to end on MemFS (real _build_index)
def _e2e_case(d0, d1, d2, a1, tmpl, v, w):
    """real workspace on MemFS: state point / document files are read by the real Project._build_index"""
    from vflib import memfs, ws
    s = ws.Sim(paths=("/p",))
    try:
        docs = []
        sps = [{"a": 0}, {"a": a1, "z": 1}, {"a": 1, "n": {"c": 0}}]
        corpus = {}
        for sp, d in zip(sps, (d0, d1, d2)):
            doc = None if d == 0 else ({} if d == 1 else ({"b": 0} if d == 2 else {"b": 1, "m": {"x": [1]}}))
            s.add_job("/p", sp, doc=doc if doc else None)
            if d == 1:
                j = s.pr["/p"].open_job(sp)
                j.document["t"] = 1
                del j.document["t"]      # an existing, empty document file
            corpus[refs.canon_id(sp)] = (sp, doc)
        A, B = {"a": w}, {"doc.b": v}
        flt = [B, {"doc.b": {"$exists": False}}, {"$not": B}, {"$or": [B, A]}, {"$and": [A, {"$not": B}]}, A, {"doc": {"m": {"x": [1]}}}, {"doc.b.$ne": v, "sp.a.$lte": w}][tmpl]
        pr = memfs.mkproject(s.fs, "/p")
        cur = pr.find_jobs(flt)
        got = sorted(j.id for j in cur)
        want = sorted(expected(corpus, flt))
        ok = got == want and len(cur) == len(want) and sorted(pr._find_job_ids(flt)) == want
    finally:
        s.close()
    return ok


def h_end2end(d0: int, d1: int, d2: int, a1: int, tmpl: int, v: int, w: int):
    assert 0 <= d0 <= 3 and 0 <= d1 <= 3 and 0 <= d2 <= 3 and 0 <= a1 <= 1 and 0 <= tmpl < 8 and 0 <= v <= 1 and 0 <= w <= 1 and part_ok(tmpl)
    fresh_path()
    d0, d1, d2, a1, tmpl, v, w = ci(d0, 0, 3), ci(d1, 0, 3), ci(d2, 0, 3), ci(a1, 0, 1), ci(tmpl, 0, 7), ci(v, 0, 1), ci(w, 0, 1)
    with nt():
        ok = _e2e_case(d0, d1, d2, a1, tmpl, v, w)
    reached()
    assert ok


HARNESSES = [
    dict(name="h_end2end", timeout=(400, 900), parts=(8, 8)),
    dict(name="h_eq_values", twin="h_eq_values__reach", timeout=(400, 900), parts=(5, 10)),
    dict(name="h_eq_shapes", timeout=(400, 900), parts=(5, 5)),
    dict(name="h_eq3", timeout=(1500, 1500), parts=(10, 10), tiers=("thorough",)),
    dict(name="h_cmp_int", twin="h_cmp_int__reach", timeout=(400, 1500), parts=(6, 6)),
    dict(name="h_cmp_num", timeout=(400, 900), parts=(2, 4)),
    dict(name="h_in", timeout=(400, 900), parts=(5, 10)),
    dict(name="h_exists", timeout=(300, 900)),
    dict(name="h_type", timeout=(400, 900), parts=(6, 6)),
    dict(name="h_type_num", timeout=(300, 900), parts=(3, 3)),
    dict(name="h_list_of_mappings", timeout=(400, 900), parts=(10, 10)),
    dict(name="h_regex", timeout=(300, 900)),
    dict(name="h_near", timeout=(300, 900)),
    dict(name="h_logic", twin="h_logic__reach", timeout=(400, 900), parts=(13, 13)),
    dict(name="h_independence", timeout=(400, 900), parts=(4, 4)),
    dict(name="h_logic_samekey", timeout=(400, 900), parts=(6, 6)),
    dict(name="h_keynames", timeout=(300, 600)),
]
