"""C12 — concurrent processes initialise jobs and write documents without corruption (E2s).

Actors are threads used as coroutines (one runs at a time, hand-off at every MemFS step); each actor has its OWN Project/Job objects and
shares only the MemFS (and nothing else: per-actor temp-file names, per-actor thread-lock table). The real code runs natively inside the
actor threads; the SCHEDULE s0..s71 is a vector of symbolic ints compared in the main thread under resumed tracing, so CrossHair/z3
explores and closes the schedule tree (sleep-set reduction with fixed actor order; stated pre-emption bound)."""
import json, threading
from vflib import memfs, refs, ws, sched
from vflib.hutil import pick, reached, part_ok, kf_filter, spy, tier, fresh_path, nt, ci, cb, discard
import signac.job as J
import signac.project as P
import signac._utility as UT

E2 = True
NSCHED = 72
CODE = ["signac.project.Project.__init__ (workspace creation)", "signac._utility._mkdir_p", "signac.job.Job.init / _StatePointDict.save / load", "signac.job.Job.document (read / write)", "signac.project.Project._job_dirs / __len__ / __iter__ / _get_statepoint",
        "synced_collections JSON backend (temp file + os.replace)"]
BOUNDS = {"actors": "2 (quick, thorough) and 3 (thorough, pre-emption bound 1)", "scripts": "init(force=True) of the same job (pre-emption bound 3 in quick) / init same job / init different jobs / write own job's document / read the other's document / len+iterate / the real Project() constructor on a project without a workspace directory; "
          "from an empty and from a populated workspace", "schedules": "every interleaving at file-system-step granularity (queries are scheduling points too) up to the sleep-set reduction; "
          "quick: at most 2 pre-emptions; thorough: at most 4 pre-emptions for 2 actors", "schedule length": "72 decision points (paths needing more are reported as inconclusive, never as success)"}
OUTSIDE = ["reading the state point of a job while another process is between creating its directory and writing its state point file (inherent window; raises JobsCorruptedError)", "more than 3 actors", "concurrent writers of the SAME document (not in the property)", "pre-emption inside a single file-system call", "schedules beyond the pre-emption bound"]
STUBS = ["MemFS with atomic steps", "signac.project._load_config -> constant configuration (configobj reads a real file)", "actors are threads in one interpreter: the per-file thread-lock table of synced_collections is keyed per actor and temp-file uuids are per actor, as separate processes would have them"]
ASSUMPTIONS = ["each file-system call is atomic (MemFS rules: rename atomic, mkdir fails EEXIST, makedirs(exist_ok) tolerates a concurrent creator)"]

SP = [{"a": 0}, {"a": 1}]


def _script(kind, idx, fs, log):
    """actor body; every actor builds its own Project object (a separate process)"""
    def body(actor):
        pr = memfs.mkproject_nofs("/p")
        if kind == 0:      # init the same job
            pr.open_job(SP[0]).init()
        elif kind == 1:    # init 'my' job
            pr.open_job(SP[idx % 2]).init()
        elif kind == 2:    # write my job's document (job exists or is created by the write)
            pr.open_job(SP[idx % 2]).document["k"] = idx + 1
            log.append(("wrote", idx, actor_clock()))
        elif kind == 3:    # read the OTHER actor's job document and state point
            j = pr.open_job(SP[(idx + 1) % 2])
            t0 = actor_clock()
            try:
                v = j.document().get("k") if fs._q_isdir(j.path) else "absent"
            except Exception as e:  # noqa
                raise
            log.append(("read", idx, t0, v))
        elif kind == 4:    # len + iterate (state points of all jobs)
            n = len(pr)
            ids = sorted(j.id for j in pr)      # handles only: reading the state point of a job that another process is just creating is outside the property
            log.append(("listed", idx, n, ids))
        elif kind == 6:    # init(force=True) of the same job ("to be safe" scripts, Project.repair)
            pr.open_job(SP[0]).init(force=True)
        elif kind == 5:    # the REAL Project constructor (config parsing stubbed) on a project whose workspace may not exist yet, then init
            pr = P.Project("/p")
            pr.open_job(SP[idx % 2]).init()
    return body


_CLOCK = [None]


def actor_clock():
    return _CLOCK[0].clock if _CLOCK[0] is not None else 0


def _case(k0, k1, k2, nact, populated, schedule, pb):
    fs = memfs.MemFS()
    memfs.install(fs)
    problems = []
    old_load = P._load_config
    P._load_config = lambda path=None: {"schema_version": "2"}   # configobj parsing of a real file: stubbed (constant configuration)
    try:
        fs.put_dir("/p")
        fs.put("/p/.signac/config", b"schema_version = 2\n")
        if populated:
            fs.put_dir("/p/workspace")
            pr0 = memfs.mkproject_nofs("/p")
            pr0.open_job({"a": 7}).init()
            if populated == 2:
                pr0.open_job(SP[0]).init()
                pr0.open_job(SP[0]).document["k"] = 100
        if not populated and 5 not in (k0, k1, k2)[:nact]:
            fs.put_dir("/p/workspace")
        torn = []

        def monitor(path, data):
            base = path.split("/")[-1]
            if base in ("signac_statepoint.json", "signac_job_document.json"):
                try:
                    json.loads(data)
                except ValueError:
                    torn.append((path, data[:30]))
        fs.read_monitor = monitor
        log = []
        kinds = [k0, k1, k2][:nact]
        sc = sched.Scheduler(fs, [_script(k, i, fs, log) for i, k in enumerate(kinds)], schedule, preemption_bound=pb)
        _CLOCK[0] = sc
        sc.run()      # may raise IgnoreAttempt for a discarded schedule
        _CLOCK[0] = None
        for a in sc.actors:
            if a.exc is not None:
                problems.append(("actor raised", a.idx, kinds[a.idx], type(a.exc).__name__, str(a.exc)[:80]))
        if torn:
            problems.append(("torn read", torn[:2]))
        # final state: check() passes, exactly the requested jobs, documents as some sequential execution
        want = set()
        if populated:
            want.add(refs.canon_id({"a": 7}))
        if populated == 2:
            want.add(refs.canon_id(SP[0]))
        docs = {}
        if populated == 2:
            docs[refs.canon_id(SP[0])] = {"k": 100}
        for i, k in enumerate(kinds):
            if k in (0, 6):
                want.add(refs.canon_id(SP[0]))
            elif k in (1, 2, 5):
                want.add(refs.canon_id(SP[i % 2]))
            if k == 2:
                docs.setdefault(refs.canon_id(SP[i % 2]), {})
        obs, facts = ws.observe(fs, "/p")
        if set(obs) != want:
            problems.append(("jobs", sorted(obs), sorted(want)))
        if facts["check"]:
            problems.append(("check()", facts["check"]))
        writers = {}
        for i, k in enumerate(kinds):
            if k == 2:
                writers.setdefault(refs.canon_id(SP[i % 2]), []).append(i + 1)
        for jid, o in obs.items():
            d = o["doc"] or {}
            if jid in writers:
                if d.get("k") not in writers[jid] or {kk: v for kk, v in d.items() if kk != "k"}:
                    problems.append(("document", jid, d, writers[jid]))
            elif d != docs.get(jid, {}):
                problems.append(("document", jid, d))
        if ws.stray_files(fs, "/p"):
            problems.append(("stray", ws.stray_files(fs, "/p")))
        # visibility: a document write completed before a read started is seen by that read
        for ev in log:
            if ev[0] == "read":
                _, ridx, t0, v = ev
                tgt = (ridx + 1) % 2
                wr = [e for e in log if e[0] == "wrote" and e[1] % 2 == tgt and e[2] <= t0]
                allw = [e[1] + 1 for e in log if e[0] == "wrote" and e[1] % 2 == tgt]
                ok_vals = set(allw) | ({100} if populated == 2 and tgt == 0 else set()) | {None, "absent"}
                if v not in ok_vals:
                    problems.append(("read value", v))
                if wr and v not in [e[1] + 1 for e in wr] and v not in allw:
                    problems.append(("completed write not visible to a later read", wr, v))
            if ev[0] == "listed":
                _, lidx, n, ids = ev
                for i_ in ids:
                    if i_ not in (refs.canon_id({"a": 7}), refs.canon_id(SP[0]), refs.canon_id(SP[1])):
                        problems.append(("iterated a foreign id", i_))
    finally:
        _CLOCK[0] = None
        P._load_config = old_load
        memfs.uninstall()
    return (not problems), problems


def h_two(k0: int, k1: int, populated: int, s0: int, s1: int, s2: int, s3: int, s4: int, s5: int, s6: int, s7: int, s8: int, s9: int, s10: int, s11: int, s12: int, s13: int, s14: int, s15: int, s16: int, s17: int, s18: int, s19: int, s20: int, s21: int, s22: int, s23: int, s24: int, s25: int, s26: int, s27: int, s28: int, s29: int, s30: int, s31: int, s32: int, s33: int, s34: int, s35: int, s36: int, s37: int, s38: int, s39: int, s40: int, s41: int, s42: int, s43: int, s44: int, s45: int, s46: int, s47: int, s48: int, s49: int, s50: int, s51: int, s52: int, s53: int, s54: int, s55: int, s56: int, s57: int, s58: int, s59: int, s60: int, s61: int, s62: int, s63: int, s64: int, s65: int, s66: int, s67: int, s68: int, s69: int, s70: int, s71: int):
    """two actors, every interleaving (sleep sets), pre-emption bound from the tier"""
    assert 0 <= k0 <= 6 and 0 <= k1 <= 6 and k0 <= k1 and 0 <= populated <= 2 and part_ok((k0 * 6 + k1) * 3 + populated)
    assert k1 != 6 or k0 in (0, 6)      # the forcing actor is paired with a plain init of the same job, or with itself
    assert 0 <= s0 <= 2 and 0 <= s1 <= 2 and 0 <= s2 <= 2 and 0 <= s3 <= 2 and 0 <= s4 <= 2 and 0 <= s5 <= 2 and 0 <= s6 <= 2 and 0 <= s7 <= 2 and 0 <= s8 <= 2 and 0 <= s9 <= 2 and 0 <= s10 <= 2 and 0 <= s11 <= 2 and 0 <= s12 <= 2 and 0 <= s13 <= 2 and 0 <= s14 <= 2 and 0 <= s15 <= 2 and 0 <= s16 <= 2 and 0 <= s17 <= 2 and 0 <= s18 <= 2 and 0 <= s19 <= 2 and 0 <= s20 <= 2 and 0 <= s21 <= 2 and 0 <= s22 <= 2 and 0 <= s23 <= 2 and 0 <= s24 <= 2 and 0 <= s25 <= 2 and 0 <= s26 <= 2 and 0 <= s27 <= 2 and 0 <= s28 <= 2 and 0 <= s29 <= 2 and 0 <= s30 <= 2 and 0 <= s31 <= 2 and 0 <= s32 <= 2 and 0 <= s33 <= 2 and 0 <= s34 <= 2 and 0 <= s35 <= 2 and 0 <= s36 <= 2 and 0 <= s37 <= 2 and 0 <= s38 <= 2 and 0 <= s39 <= 2 and 0 <= s40 <= 2 and 0 <= s41 <= 2 and 0 <= s42 <= 2 and 0 <= s43 <= 2 and 0 <= s44 <= 2 and 0 <= s45 <= 2 and 0 <= s46 <= 2 and 0 <= s47 <= 2 and 0 <= s48 <= 2 and 0 <= s49 <= 2 and 0 <= s50 <= 2 and 0 <= s51 <= 2 and 0 <= s52 <= 2 and 0 <= s53 <= 2 and 0 <= s54 <= 2 and 0 <= s55 <= 2 and 0 <= s56 <= 2 and 0 <= s57 <= 2 and 0 <= s58 <= 2 and 0 <= s59 <= 2 and 0 <= s60 <= 2 and 0 <= s61 <= 2 and 0 <= s62 <= 2 and 0 <= s63 <= 2 and 0 <= s64 <= 2 and 0 <= s65 <= 2 and 0 <= s66 <= 2 and 0 <= s67 <= 2 and 0 <= s68 <= 2 and 0 <= s69 <= 2 and 0 <= s70 <= 2 and 0 <= s71 <= 2
    fresh_path()
    k0, k1, populated = ci(k0, 0, 6), ci(k1, 0, 6), ci(populated, 0, 2)
    schedule = [s0, s1, s2, s3, s4, s5, s6, s7, s8, s9, s10, s11, s12, s13, s14, s15, s16, s17, s18, s19, s20, s21, s22, s23, s24, s25, s26, s27, s28, s29, s30, s31, s32, s33, s34, s35, s36, s37, s38, s39, s40, s41, s42, s43, s44, s45, s46, s47, s48, s49, s50, s51, s52, s53, s54, s55, s56, s57, s58, s59, s60, s61, s62, s63, s64, s65, s66, s67, s68, s69, s70, s71]
    with nt():
        r = _case(k0, k1, 0, 2, populated, schedule, (3 if k1 == 6 else 2) if tier() == "quick" else 4)
    reached()
    assert r[0]


def h_two__reach(k0: int, k1: int, populated: int, s0: int, s1: int, s2: int, s3: int, s4: int, s5: int, s6: int, s7: int, s8: int, s9: int, s10: int, s11: int, s12: int, s13: int, s14: int, s15: int, s16: int, s17: int, s18: int, s19: int, s20: int, s21: int, s22: int, s23: int, s24: int, s25: int, s26: int, s27: int, s28: int, s29: int, s30: int, s31: int, s32: int, s33: int, s34: int, s35: int, s36: int, s37: int, s38: int, s39: int, s40: int, s41: int, s42: int, s43: int, s44: int, s45: int, s46: int, s47: int, s48: int, s49: int, s50: int, s51: int, s52: int, s53: int, s54: int, s55: int, s56: int, s57: int, s58: int, s59: int, s60: int, s61: int, s62: int, s63: int, s64: int, s65: int, s66: int, s67: int, s68: int, s69: int, s70: int, s71: int):
    assert 0 <= k0 <= 5 and 0 <= k1 <= 5 and 0 <= populated <= 2
    assert 0 <= s0 <= 2 and 0 <= s1 <= 2 and 0 <= s2 <= 2 and 0 <= s3 <= 2 and 0 <= s4 <= 2 and 0 <= s5 <= 2 and 0 <= s6 <= 2 and 0 <= s7 <= 2 and 0 <= s8 <= 2 and 0 <= s9 <= 2 and 0 <= s10 <= 2 and 0 <= s11 <= 2 and 0 <= s12 <= 2 and 0 <= s13 <= 2 and 0 <= s14 <= 2 and 0 <= s15 <= 2 and 0 <= s16 <= 2 and 0 <= s17 <= 2 and 0 <= s18 <= 2 and 0 <= s19 <= 2 and 0 <= s20 <= 2 and 0 <= s21 <= 2 and 0 <= s22 <= 2 and 0 <= s23 <= 2 and 0 <= s24 <= 2 and 0 <= s25 <= 2 and 0 <= s26 <= 2 and 0 <= s27 <= 2 and 0 <= s28 <= 2 and 0 <= s29 <= 2 and 0 <= s30 <= 2 and 0 <= s31 <= 2 and 0 <= s32 <= 2 and 0 <= s33 <= 2 and 0 <= s34 <= 2 and 0 <= s35 <= 2 and 0 <= s36 <= 2 and 0 <= s37 <= 2 and 0 <= s38 <= 2 and 0 <= s39 <= 2 and 0 <= s40 <= 2 and 0 <= s41 <= 2 and 0 <= s42 <= 2 and 0 <= s43 <= 2 and 0 <= s44 <= 2 and 0 <= s45 <= 2 and 0 <= s46 <= 2 and 0 <= s47 <= 2 and 0 <= s48 <= 2 and 0 <= s49 <= 2 and 0 <= s50 <= 2 and 0 <= s51 <= 2 and 0 <= s52 <= 2 and 0 <= s53 <= 2 and 0 <= s54 <= 2 and 0 <= s55 <= 2 and 0 <= s56 <= 2 and 0 <= s57 <= 2 and 0 <= s58 <= 2 and 0 <= s59 <= 2 and 0 <= s60 <= 2 and 0 <= s61 <= 2 and 0 <= s62 <= 2 and 0 <= s63 <= 2 and 0 <= s64 <= 2 and 0 <= s65 <= 2 and 0 <= s66 <= 2 and 0 <= s67 <= 2 and 0 <= s68 <= 2 and 0 <= s69 <= 2 and 0 <= s70 <= 2 and 0 <= s71 <= 2
    schedule = [s0, s1, s2, s3, s4, s5, s6, s7, s8, s9, s10, s11, s12, s13, s14, s15, s16, s17, s18, s19, s20, s21, s22, s23, s24, s25, s26, s27, s28, s29, s30, s31, s32, s33, s34, s35, s36, s37, s38, s39, s40, s41, s42, s43, s44, s45, s46, s47, s48, s49, s50, s51, s52, s53, s54, s55, s56, s57, s58, s59, s60, s61, s62, s63, s64, s65, s66, s67, s68, s69, s70, s71]
    with nt():
        fs = memfs.MemFS()
        memfs.install(fs)
        fs.put_dir("/p/workspace")
        log = []
        sc = sched.Scheduler(fs, [_script(0, 0, fs, log), _script(0, 1, fs, log)], schedule, preemption_bound=2)
        sc.run()
        tr = [t[0] for t in sc.trace]
        memfs.uninstall()
    switches = sum(1 for a, b in zip(tr, tr[1:]) if a != b)
    assert switches < 2  # twin: a schedule with >= 2 context switches is reachable


def h_three(k0: int, k1: int, k2: int, populated: int, s0: int, s1: int, s2: int, s3: int, s4: int, s5: int, s6: int, s7: int, s8: int, s9: int, s10: int, s11: int, s12: int, s13: int, s14: int, s15: int, s16: int, s17: int, s18: int, s19: int, s20: int, s21: int, s22: int, s23: int, s24: int, s25: int, s26: int, s27: int, s28: int, s29: int, s30: int, s31: int, s32: int, s33: int, s34: int, s35: int, s36: int, s37: int, s38: int, s39: int, s40: int, s41: int, s42: int, s43: int, s44: int, s45: int, s46: int, s47: int, s48: int, s49: int, s50: int, s51: int, s52: int, s53: int, s54: int, s55: int, s56: int, s57: int, s58: int, s59: int, s60: int, s61: int, s62: int, s63: int, s64: int, s65: int, s66: int, s67: int, s68: int, s69: int, s70: int, s71: int):
    """thorough: three actors, pre-emption bound 1"""
    assert 0 <= k0 <= 5 and 0 <= k1 <= 5 and 0 <= k2 <= 5 and k0 <= k1 and 0 <= populated <= 1 and part_ok(k0 * 6 + k1)
    assert k2 in (0, 2, 4)
    assert 0 <= s0 <= 2 and 0 <= s1 <= 2 and 0 <= s2 <= 2 and 0 <= s3 <= 2 and 0 <= s4 <= 2 and 0 <= s5 <= 2 and 0 <= s6 <= 2 and 0 <= s7 <= 2 and 0 <= s8 <= 2 and 0 <= s9 <= 2 and 0 <= s10 <= 2 and 0 <= s11 <= 2 and 0 <= s12 <= 2 and 0 <= s13 <= 2 and 0 <= s14 <= 2 and 0 <= s15 <= 2 and 0 <= s16 <= 2 and 0 <= s17 <= 2 and 0 <= s18 <= 2 and 0 <= s19 <= 2 and 0 <= s20 <= 2 and 0 <= s21 <= 2 and 0 <= s22 <= 2 and 0 <= s23 <= 2 and 0 <= s24 <= 2 and 0 <= s25 <= 2 and 0 <= s26 <= 2 and 0 <= s27 <= 2 and 0 <= s28 <= 2 and 0 <= s29 <= 2 and 0 <= s30 <= 2 and 0 <= s31 <= 2 and 0 <= s32 <= 2 and 0 <= s33 <= 2 and 0 <= s34 <= 2 and 0 <= s35 <= 2 and 0 <= s36 <= 2 and 0 <= s37 <= 2 and 0 <= s38 <= 2 and 0 <= s39 <= 2 and 0 <= s40 <= 2 and 0 <= s41 <= 2 and 0 <= s42 <= 2 and 0 <= s43 <= 2 and 0 <= s44 <= 2 and 0 <= s45 <= 2 and 0 <= s46 <= 2 and 0 <= s47 <= 2 and 0 <= s48 <= 2 and 0 <= s49 <= 2 and 0 <= s50 <= 2 and 0 <= s51 <= 2 and 0 <= s52 <= 2 and 0 <= s53 <= 2 and 0 <= s54 <= 2 and 0 <= s55 <= 2 and 0 <= s56 <= 2 and 0 <= s57 <= 2 and 0 <= s58 <= 2 and 0 <= s59 <= 2 and 0 <= s60 <= 2 and 0 <= s61 <= 2 and 0 <= s62 <= 2 and 0 <= s63 <= 2 and 0 <= s64 <= 2 and 0 <= s65 <= 2 and 0 <= s66 <= 2 and 0 <= s67 <= 2 and 0 <= s68 <= 2 and 0 <= s69 <= 2 and 0 <= s70 <= 2 and 0 <= s71 <= 2
    fresh_path()
    k0, k1, k2, populated = ci(k0, 0, 5), ci(k1, 0, 5), ci(k2, 0, 5), ci(populated, 0, 1)
    schedule = [s0, s1, s2, s3, s4, s5, s6, s7, s8, s9, s10, s11, s12, s13, s14, s15, s16, s17, s18, s19, s20, s21, s22, s23, s24, s25, s26, s27, s28, s29, s30, s31, s32, s33, s34, s35, s36, s37, s38, s39, s40, s41, s42, s43, s44, s45, s46, s47, s48, s49, s50, s51, s52, s53, s54, s55, s56, s57, s58, s59, s60, s61, s62, s63, s64, s65, s66, s67, s68, s69, s70, s71]
    with nt():
        r = _case(k0, k1, k2, 3, populated, schedule, 1)
    reached()
    assert r[0]


HARNESSES = [
    dict(name="h_two", twin="h_two__reach", timeout=(900, 3000), path_timeout=120, parts=(63, 63)),
    dict(name="h_three", timeout=(3000, 3000), path_timeout=120, parts=(21, 21), tiers=("thorough",)),
]


def extra_checks(tier_):
    return ws.e2_extra(tier_)
