"""C10 — documents and the state point cache file are replaced atomically.

E2: real document / cache writing code natively on MemFS (inode semantics: a reader keeps the inode it opened; open(..,'wb') truncates
in place; rename swaps the directory entry). Crash step k, reader open step i and reader read step j are UNBOUNDED symbolic ints that
each file-system step compares itself with (z3 decides); torn length, errno and scenario are small symbolic ints."""
import errno, gzip, json
import signac
from vflib import memfs, refs, ws
from vflib.hutil import pick, reached, part_ok, kf_filter, spy, tier, fresh_path, nt, ci, cb, FaultPlan, decide
import signac.job as J
import signac.project as P
import synced_collections.backends.collection_json as CJ

E2 = True
spy(CJ.JSONCollection, "_save_to_resource", "synced_collections.backends.collection_json.JSONCollection._save_to_resource")
spy(P.Project, "update_cache", "signac.project.Project.update_cache")
CODE = ["signac.job.Job.document (BufferedJSONAttrDict, write_concern=True)", "signac.project.Project.document", "signac.project.Project.update_cache / _read_cache",
        "synced_collections JSONCollection._save_to_resource / buffered flush", "signac.buffered"]
BOUNDS = {"scenarios": "Job.clear / Job.reset through a fresh handle; job document write on empty / small / 2 KiB document; document key delete; whole reset; project document write and whole assignment; buffered block flushing two jobs; update_cache growing, shrinking+growing, first time",
          "crash": "before ANY step k >= 0 (unbounded), or torn write of 0 / 1 / half / len-1 bytes at step k", "fault": "step k fails with EIO / ENOSPC / EACCES / EROFS, or the write at step k is short (device full: half of the data is accepted, a buffered writer then gets ENOSPC, a raw writer only a short count)",
          "reader": "one reader opening the target before ANY writer step i and reading it before ANY writer step j >= i (all interleavings of a 2-step reader with the writer)",
          "thread-safety switch": "both states of synced_collections' multithreading support (enabled = default, disabled)"}
OUTSIDE = ["power-loss ordering / fsync", "network file systems", "readers that read in several chunks"]
STUBS = ["MemFS for os/open/uuid/gzip (validated against tmpfs on every run; counterexamples replayed on the real file system)"]
ASSUMPTIONS = ["POSIX rename atomicity", "process-crash durability of completed calls"]

BIG = {"big": "x" * 2000, "l": list(range(40))}
NSCN = 13


def _setup(scn):
    """returns (sim, op, [target paths], parse function)"""
    s = ws.Sim(paths=("/p",))
    pr = s.pr["/p"]
    j1 = s.add_job("/p", {"a": 0}, doc=None if scn == 0 else ({"k": 1} if scn != 2 else dict(BIG)))
    j2 = s.add_job("/p", {"a": 1}, doc={"m": 2})
    d1 = j1.path + "/signac_job_document.json"
    d2 = j2.path + "/signac_job_document.json"
    pd = "/p/signac_project_document.json"
    cache = "/p/.signac/statepoint_cache.json.gz"
    pj = lambda b: json.loads(b)
    pc = lambda b: json.loads(gzip.decompress(b))
    if scn in (0, 1):
        return s, (lambda: j1.document.__setitem__("n", [1, 2, 3])), [d1], pj
    if scn == 2:
        return s, (lambda: j1.document.__setitem__("n", "y" * 3000)), [d1], pj
    if scn == 3:
        return s, (lambda: j1.document.__delitem__("k")), [d1], pj
    if scn == 4:
        return s, (lambda: setattr(j1, "document", {"z": {"deep": [1, {"q": None}]}})), [d1], pj
    if scn == 5:
        pr.document["x"] = 1
        return s, (lambda: pr.document.__setitem__("y", {"w": 2})), [pd], pj
    if scn == 6:
        def op():
            with signac.buffered():
                j1.document["b1"] = 1
                j2.document["b2"] = [1, 2]
                j1.document["b3"] = {"c": 3}
        return s, op, [d1, d2], pj
    if scn == 7:   # first update_cache
        return s, (lambda: pr.update_cache()), [cache], pc
    if scn == 8:   # growing
        pr.update_cache()
        s.add_job("/p", {"a": 2})
        pr2 = memfs.mkproject(s.fs, "/p")
        return s, (lambda: pr2.update_cache()), [cache], pc
    if scn == 9:   # shrinking and growing in a fresh session
        pr.update_cache()
        s.pr["/p"].open_job({"a": 1}).remove()
        s.add_job("/p", {"a": 3})
        pr2 = memfs.mkproject(s.fs, "/p")
        return s, (lambda: pr2.update_cache()), [cache], pc
    if scn == 10:  # same session, cache warm
        pr.update_cache()
        s.add_job("/p", {"a": 4})
        return s, (lambda: pr.update_cache()), [cache], pc
    if scn == 11:  # whole assignment of the project document over a non-empty one
        pr.document["x"] = 1
        return s, (lambda: setattr(pr, "document", {"z": {"deep": [2]}})), [pd], pj
    if scn in (12, 13):   # Job.clear() / Job.reset() through a handle of a fresh session that has not opened the document: the document becomes {}
        fresh = memfs.mkproject(s.fs, "/p").open_job(id=j1.id)
        return s, (fresh.clear if scn == 12 else fresh.reset), [d1], pj
    raise ValueError(scn)


_NEW = {}


def _new_contents(scn, mt):
    key = (scn, mt)
    if key not in _NEW:
        from vflib.hutil import reset_buffers
        reset_buffers()
        _mt(mt)
        s, op, targets, parse = _setup(scn)
        try:
            op()
            _NEW[key] = [s.fs.get(t) for t in targets]
        finally:
            s.close()
            _mt(True)
    return _NEW[key]


def _mt(enabled):
    """state of synced_collections' thread-safety support (documents must be atomic in both)"""
    if enabled:
        signac.JSONDict.enable_multithreading()
    else:
        signac.JSONDict.disable_multithreading()


def _ok_content(data, old, new, parse):
    """absent-as-before, or parses completely to the old or the new content"""
    if data is None:
        return old is None
    try:
        v = parse(data)
    except Exception:  # noqa
        return False
    cands = [parse(x) for x in (old, new) if x is not None]
    return v in cands


def _stray_ok(fs, targets):
    for k in fs.snapshot("/p"):
        base = k.split("/")[-1]
        if base.startswith("._") or base.endswith("~"):
            continue
    return True


class DiskFull:
    """fault SEQUENCE: from step k on (unbounded symbolic k) the device is full - every write step fails with ENOSPC (files can still be
    created, renamed and removed)"""

    def __init__(self, k):
        self.k, self.on, self.n, self.fired = k, False, 0, []

    def __call__(self, fs, idx, name, args):
        i = self.n
        self.n += 1
        if not self.on and decide(lambda: self.k <= i):
            self.on = True
        if self.on and name == "write":
            self.fired.append((i, name) + tuple(args))
            return ("fail", errno.ENOSPC)
        return None


def _crash_case(scn, mode, k, t, e, mt):
    news = _new_contents(scn, mt)
    _mt(mt)
    s, op, targets, parse = _setup(scn)
    fs = s.fs
    try:
        olds = [fs.get(x) for x in targets]
        before = {k_: v for k_, v in fs.snapshot("/p").items()}
        plan = FaultPlan(mode, k, t=t, err=e) if mode != 6 else DiskFull(k)
        fs.hook = plan
        exc, crashed = None, False
        try:
            op()
        except memfs.Crash:
            crashed = True
        except Exception as ex:  # noqa
            exc = ex
        fs.hook = None
        fs.revive()
        problems = []
        for tgt, old, new in zip(targets, olds, news):
            okc = _ok_content(fs.get(tgt), old, new, parse)
            if not okc and scn == 6 and exc is not None and not crashed:
                # a handled error inside a buffered block: leaving the block flushes the writes made so far (a complete, parseable
                # intermediate document) -- accepted; a torn / unparsable file is not
                try:
                    okc = parse(fs.get(tgt)) in ({"k": 1, "b1": 1}, {"k": 1, "b1": 1, "b3": {"c": 3}}, {"m": 2, "b2": [1, 2]})
                except Exception:  # noqa
                    okc = False
            if not okc:
                problems.append(("target neither old nor new nor absent-as-before", tgt, (fs.get(tgt) or b"")[:40]))
        # after the restart the files are read through signac itself (which must not turn a leftover into the real thing)
        problems += _api_read(fs, scn, targets, olds, news, parse, "after restart")
        after = fs.snapshot("/p")
        for k_, v in after.items():
            base = k_.split("/")[-1]
            if k_ not in before and not (base.startswith("._") or base.endswith("~")) and ("/" + k_) not in [x[len("/p"):] for x in targets]:
                problems.append(("unexpected new file", k_))
            if k_ in before and before[k_] != v and ("/p/" + k_) not in targets:
                problems.append(("other file changed", k_))
        if mode in (3, 4, 6) and plan.fired and not crashed:
            # handled error: the cache temp file must be cleaned up; the call must not return normally with the target unchanged-but-claimed-written
            if exc is None:
                for tgt, new in zip(targets, news):
                    if fs.get(tgt) is None or parse(fs.get(tgt)) != parse(new):
                        problems.append(("write returned normally after a failed step but the file does not hold the new content", tgt, plan.fired))
    finally:
        s.close()
        _mt(True)
    return (not problems), problems, plan.fired, crashed, exc


def h_crash(scn: int, mode: int, k: int, t: int, mt: bool):
    """crash before any step k / torn write at step k: the target parses to old or new, only temp files are left"""
    assert 0 <= scn <= NSCN and 1 <= mode <= 2 and 0 <= k and 0 <= t <= 3 and (mode == 2 or t == 0) and part_ok(scn)
    fresh_path()
    scn, mode, t, mt = ci(scn, 0, NSCN), ci(mode, 1, 2), ci(t, 0, 3), cb(mt)
    with nt():
        r = _crash_case(scn, mode, k, [0, 1, -2, -1][t], 0, mt)
    reached()
    assert r[0]


def h_crash__reach(scn: int, mode: int, k: int, t: int, mt: bool):
    assert 0 <= scn <= NSCN and 1 <= mode <= 2 and 0 <= k and 0 <= t <= 3 and (mode == 2 or t == 0)
    scn = ci(scn, 0, NSCN)
    with nt():
        r = _crash_case(scn, 1, k, 0, 0, True)
    assert not r[3]  # twin: a crash is reachable


def h_fault(scn: int, k: int, e: int, mt: bool):
    """a step fails with an errno (e < 4) or a write is short because the device is full (e == 4)"""
    assert 0 <= scn <= NSCN and 0 <= k and 0 <= e <= 4 and part_ok(scn)
    fresh_path()
    scn, e, mt = ci(scn, 0, NSCN), ci(e, 0, 4), cb(mt)
    with nt():
        if e == 4:
            r = _crash_case(scn, 4, k, -2, 0, mt)
        else:
            r = _crash_case(scn, 3, k, 0, [errno.EIO, errno.ENOSPC, errno.EACCES, errno.EROFS][e], mt)
    reached()
    assert r[0]


def _api_read(fs, scn, targets, olds, news, parse, tag):
    """a fresh session reads through the real API: the state point cache via Project._read_cache / open_job(id=), documents via
    Job.document / Project.document. It must get old or new content (or 'no cache'), must not raise anything else, and must leave the
    target files old-or-new as well (a reader that 'repairs' what it finds is a writer)."""
    problems = []
    hook, fs.hook = fs.hook, None
    try:
        prx = memfs.mkproject(fs, "/p")
        if 7 <= scn <= 10:
            try:
                got = prx._read_cache()
                cands = [parse(x) for x in (olds[0], news[0]) if x is not None]
                if got is not None and got not in cands:
                    problems.append((tag, "signac read a cache that is neither old nor new", sorted(got)[:3]))
                for sp in ({"a": 0}, {"a": 1}):
                    try:
                        prx.open_job(id=refs.canon_id(sp)).statepoint()
                    except (KeyError, LookupError):
                        pass
            except Exception as ex:  # noqa
                problems.append((tag, "reading the state point cache through signac raised", type(ex).__name__, str(ex)[:80]))
        else:
            for tgt, old, new in zip(targets, olds, news):
                try:
                    if tgt.endswith("signac_project_document.json"):
                        got = prx.document()
                    else:
                        jid = tgt.split("/")[-2]
                        got = prx.open_job(id=jid).document()
                    cands = [parse(x) for x in (old, new) if x is not None] + ([{}] if old is None else [])
                    if scn == 6:
                        cands += [{"k": 1, "b1": 1}, {"k": 1, "b1": 1, "b3": {"c": 3}}, {"m": 2, "b2": [1, 2]}]
                    if got not in cands:
                        problems.append((tag, "signac read a document that is neither old nor new", tgt, str(got)[:60]))
                except Exception as ex:  # noqa
                    problems.append((tag, "reading a document through signac raised", tgt, type(ex).__name__, str(ex)[:80]))
        for tgt, old, new in zip(targets, olds, news):
            okc = _ok_content(fs.get(tgt), old, new, parse)
            if not okc and scn == 6:
                try:
                    okc = parse(fs.get(tgt)) in ({"k": 1, "b1": 1}, {"k": 1, "b1": 1, "b3": {"c": 3}}, {"m": 2, "b2": [1, 2]})
                except Exception:  # noqa
                    okc = False
            if not okc:
                problems.append((tag, "after a read through signac the target is neither old nor new", tgt, (fs.get(tgt) or b"")[:40]))
    finally:
        fs.hook = hook
    return problems


class _ApiReaderHook:
    """a second process that runs a complete read through signac between two writer steps (before writer step i, unbounded)"""

    def __init__(self, fs, i, fn):
        self.fs, self.i, self.fn = fs, i, fn
        self.n = 0
        self.done = False
        self.problems = []

    def __call__(self, fs, idx, name, args):
        n = self.n
        self.n += 1
        if not self.done and decide(lambda: self.i == n):
            self.done = True
            self.problems += self.fn("reader before writer step %d" % n)
        return None


def _reader_api_case(scn, i, mt):
    news = _new_contents(scn, mt)
    _mt(mt)
    s, op, targets, parse = _setup(scn)
    fs = s.fs
    problems = []
    try:
        olds = [fs.get(x) for x in targets]
        rh = _ApiReaderHook(fs, i, lambda tag: _api_read(fs, scn, targets, olds, news, parse, tag))
        fs.hook = rh
        try:
            op()
        except Exception as ex:  # noqa
            problems.append(("the writer failed because a reader ran in between", type(ex).__name__, str(ex)[:80]))
        fs.hook = None
        fs.revive()
        problems += rh.problems
        for tgt, new in zip(targets, news):
            if fs.get(tgt) is None or parse(fs.get(tgt)) != parse(new):
                problems.append(("after writer and reader finished the target does not hold the new content", tgt))
    finally:
        s.close()
        _mt(True)
    return (not problems), problems


def h_reader_api(scn: int, i: int, mt: bool):
    """a reader that goes through signac's own read path (fresh Project: _read_cache / open_job(id) / document) scheduled before ANY writer step"""
    assert 0 <= scn <= NSCN and 0 <= i and part_ok(scn)
    fresh_path()
    scn, mt = ci(scn, 0, NSCN), cb(mt)
    with nt():
        r = _reader_api_case(scn, i, mt)
    reached()
    assert r[0]


def h_disk_full(scn: int, k: int, mt: bool):
    """the device runs full at ANY step and stays full: whatever the writer then does (clean up, fall back), the target stays old or new"""
    assert 0 <= scn <= NSCN and 0 <= k and part_ok(scn)
    fresh_path()
    scn, mt = ci(scn, 0, NSCN), cb(mt)
    with nt():
        r = _crash_case(scn, 6, k, 0, 0, mt)
    reached()
    assert r[0]


class _ReaderHook:
    """a second process: opens target before writer step i, reads before writer step j >= i"""

    def __init__(self, fs, target, i, j):
        self.fs, self.target, self.i, self.j = fs, target, i, j
        self.handle = None
        self.opened = False
        self.data = "<not read>"
        self.n = 0

    def __call__(self, fs, idx, name, args):
        n = self.n
        self.n += 1
        if not self.opened and decide(lambda: self.i == n):
            self.opened = True
            try:
                self.handle = fs._do_open_r(self.target)
            except OSError:
                self.handle = None
        if self.opened and self.data == "<not read>" and decide(lambda: self.j == n):
            self.data = fs._do_read(self.handle) if self.handle is not None else None
        return None

    def finish(self):
        if not self.opened:
            try:
                self.handle = self.fs._do_open_r(self.target)
            except OSError:
                self.handle = None
            self.opened = True
        if self.data == "<not read>":
            self.data = self.fs._do_read(self.handle) if self.handle is not None else None
        return self.data


def _reader_case(scn, which, i, j, mt):
    news = _new_contents(scn, mt)
    _mt(mt)
    s, op, targets, parse = _setup(scn)
    fs = s.fs
    try:
        which = which % len(targets)
        tgt = targets[which]
        old = fs.get(tgt)
        rh = _ReaderHook(fs, tgt, i, j)
        fs.hook = rh
        op()
        fs.hook = None
        fs.revive()
        data = rh.finish()
        ok = _ok_content(data, old, news[which], parse) or (data is None and old is None)
        # a reader that found no file although one existed before the write started saw a torn state
        if data is None and old is not None:
            ok = False
    finally:
        s.close()
        _mt(True)
    return ok, (tgt, data[:40] if data else data)


def h_reader(scn: int, which: int, i: int, d: int, mt: bool):
    """every interleaving of a (open, read) reader with the writer's file-system steps: the reader parses old or new"""
    assert 0 <= scn <= NSCN and 0 <= which <= 1 and 0 <= i and 0 <= d and part_ok(scn)
    fresh_path()
    scn, which, mt = ci(scn, 0, NSCN), ci(which, 0, 1), cb(mt)
    j = i + d
    with nt():
        r = _reader_case(scn, which, i, j, mt)
    reached()
    assert r[0]


def _migration_doc_case(k, t, named, mt=True):
    """the v1->v2 migration writes the project name into the project document: that write must be atomic too.
    Real file system; only the JSON document back end runs on numbered steps (crash before step k / torn write)."""
    import os, shutil, io, contextlib
    import synced_collections.backends.collection_json as CJ_
    from signac.migration import apply_migrations
    root = "/dev/shm/vf_c10mig_%d" % os.getpid()
    shutil.rmtree(root, ignore_errors=True)
    os.makedirs(os.path.join(root, "workspace"))
    with open(os.path.join(root, "signac.rc"), "w") as f:
        f.write("project = %s\nschema_version = 1\n" % ("myproject" if named else "None"))
    docfn = os.path.join(root, "signac_project_document.json")
    old = b'{"existing": {"k": [1, 2, 3]}, "pad": "' + b"x" * 300 + b'"}'
    with open(docfn, "wb") as f:
        f.write(old)
    fs = memfs.PassthroughFS()
    saved = (CJ_.os, getattr(CJ_, "open", None), CJ_.uuid)
    fo = memfs.fake_os(fs)
    CJ_.os, CJ_.open = fo, fs.open
    # the migration module itself as well: whatever file I/O it does on its own (not through the document back end) is numbered too
    import signac.migration.v1_to_v2 as V12_
    saved_v = (V12_.os, getattr(V12_, "open", None))
    V12_.os, V12_.open = fo, fs.open
    plan = FaultPlan(2 if t else 1, k, t=t)
    fs.hook = plan
    problems = []
    _mt(mt)
    try:
        try:
            with contextlib.redirect_stderr(io.StringIO()):
                apply_migrations(root)
        except memfs.Crash:
            pass
        except RuntimeError as e:
            if not plan.fired:
                problems.append(("the migration failed although no crash was injected", repr(e.__cause__ or e)[:120]))
        except BaseException as e:  # noqa  (apply_migrations wraps exceptions; a Crash may arrive wrapped)
            if not isinstance(e, memfs.Crash):
                raise
        with open(docfn, "rb") as f:
            data = f.read()
        try:
            v = json.loads(data)
        except ValueError:
            v = None
        want_new = dict(json.loads(old), signac_project_name="myproject")
        if v != json.loads(old) and not (named and v == want_new):
            problems.append(("project document neither old nor new after a crash in the migration", data[:60]))
    finally:
        _mt(True)
        fs.hook = None
        CJ_.os, CJ_.uuid = saved[0], saved[2]
        if saved[1] is None:
            del CJ_.open
        else:
            CJ_.open = saved[1]
        V12_.os = saved_v[0]
        if saved_v[1] is None:
            del V12_.open
        else:
            V12_.open = saved_v[1]
        try:
            os.unlink(os.path.join(root, ".SIGNAC_PROJECT_MIGRATION_LOCK"))
        except OSError:
            pass
        shutil.rmtree(root, ignore_errors=True)
    return problems, plan.fired


def h_migration_doc(k: int, t: int, named: bool, mt: bool):
    assert 0 <= k and 0 <= t <= 2
    fresh_path()
    t, named, mt = pick([0, 1, -2], t), cb(named), cb(mt)
    with nt():
        problems, fired = _migration_doc_case(k, t, named, mt)
    reached()
    assert not problems


HARNESSES = [
    dict(name="h_migration_doc", timeout=(300, 600), unblock=True),
    dict(name="h_crash", twin="h_crash__reach", timeout=(600, 1500), parts=(14, 14)),
    dict(name="h_fault", timeout=(600, 1500), parts=(14, 14)),
    dict(name="h_reader", timeout=(600, 1500), parts=(14, 14)),
    dict(name="h_reader_api", timeout=(600, 1500), parts=(14, 14)),
    dict(name="h_disk_full", timeout=(600, 1500), parts=(14, 14)),
]


def extra_checks(tier_):
    return ws.e2_extra(tier_)
