import time
import z3
from crosshair import statespace
from vflib.stats import S

_orig_check = z3.Solver.check


def _check(self, *a, **k):
    t = time.perf_counter()
    try:
        return _orig_check(self, *a, **k)
    finally:
        S["queries"] += 1
        S["solver_s"] += time.perf_counter() - t


z3.Solver.check = _check

_orig_init = statespace.StateSpace.__init__


def _init(self, *a, **k):
    S["paths"] += 1
    return _orig_init(self, *a, **k)


statespace.StateSpace.__init__ = _init
