"""Symbolic scheduler for engine E2s: several actors (threads used as coroutines; exactly one runs at a time) execute real signac
code natively on one shared MemFS; every MemFS step of an actor is a scheduling point. Which actor performs the next step is
decided in the main thread by comparing a symbolic schedule variable (tracing resumed), so CrossHair/z3 explores and closes the
schedule tree.

Reductions (both expressed as discarded paths, i.e. assumptions on the symbolic schedule):
 * sleep sets with a fixed actor order (at least one linearisation of every Mazurkiewicz trace survives);
 * an optional pre-emption bound (part of the claim when set).
"""
import posixpath
import threading

from vflib import memfs
from vflib.hutil import decide, discard, note

WRITES = frozenset({"replace", "remove", "rmdir", "mkdir", "open_w", "write"})


def _paths(step):
    name, args = step
    ps = [a for a in args if isinstance(a, str)]
    return ps


def _related(p, q):
    return p == q or p.startswith(q + "/") or q.startswith(p + "/")


def dependent(x, y):
    """may the two steps not commute?"""
    (nx, ax), (ny, ay) = x, y
    wx, wy = nx in WRITES, ny in WRITES
    if not wx and not wy:
        return False
    for p in _paths(x):
        for q in _paths(y):
            if _related(p, q):
                return True
            # a directory listing / existence check of a parent depends on creation / removal / rename of its children
            if posixpath.dirname(q) == p and (nx == "listdir") and wy:
                return True
            if posixpath.dirname(p) == q and (ny == "listdir") and wx:
                return True
    return False


class Actor:
    def __init__(self, idx, body):
        self.idx, self.body = idx, body
        self.go = threading.Semaphore(0)
        self.back = threading.Semaphore(0)
        self.done = False
        self.exc = None
        self.pending = None
        self.steps = 0
        self.finished_at = None
        self.thread = threading.Thread(target=self._run, daemon=True)
        self.thread.actor = self

    def _run(self):
        self.go.acquire()
        try:
            self.body(self)
        except memfs.Abort:
            pass
        except BaseException as e:  # noqa
            self.exc = e
        self.done = True
        self.pending = None
        self.back.release()


class Scheduler:
    def __init__(self, fs, bodies, schedule, preemption_bound=None):
        self.fs = fs
        self.actors = [Actor(i, b) for i, b in enumerate(bodies)]
        self.schedule = schedule
        self.pb = preemption_bound
        self.abort = False
        self.trace = []
        self.clock = 0
        fs.hook = self._hook
        fs.uuid_hook = self._uuid4      # temp-file names are private to an actor (separate processes draw independent uuids)
        self._uuid = {}
        # separate processes do not share synced_collections' per-file thread-lock table: key it by actor
        import synced_collections.backends.collection_json as CJ
        self._CJ = CJ
        self._orig_lock_id = CJ.JSONCollection._lock_id

        def _lock_id(coll):
            a = getattr(threading.current_thread(), "actor", None)
            return "%s:%s" % (a.idx if a is not None else "m", coll._filename)
        CJ.JSONCollection._lock_id = property(_lock_id)
        # likewise the class-level buffer lock (taken around every load/save of a buffered collection) is per process
        from synced_collections.utils import _NullContext
        self._buf_locks, self._lock_tables = {}, {}
        stack = [CJ.JSONCollection]
        while stack:
            c = stack.pop()
            stack.extend(c.__subclasses__())
            if "_BUFFER_LOCK" in c.__dict__:
                self._buf_locks[c] = c.__dict__["_BUFFER_LOCK"]
                c._BUFFER_LOCK = _NullContext()
            if isinstance(c.__dict__.get("_locks"), dict):
                self._lock_tables[c] = c.__dict__["_locks"]
                c._locks = {}          # a fresh lock table per run (aborted actor threads of earlier runs must not matter)

    # called in ACTOR threads -----------------------------------------------------------------
    def _hook(self, fs, idx, name, args):
        a = getattr(threading.current_thread(), "actor", None)
        if a is None:
            return None
        a.pending = (name, args)
        a.back.release()
        a.go.acquire()
        if self.abort:
            raise memfs.Abort()
        return None

    def _uuid4(self):
        a = getattr(threading.current_thread(), "actor", None)
        k = a.idx if a is not None else "m"
        self._uuid[k] = self._uuid.get(k, 0) + 1
        return "u%s_%03d" % (k, self._uuid[k])

    # main thread ----------------------------------------------------------------------------
    def _step(self, a):
        """let actor a perform its pending step and run to its next scheduling point"""
        if a.pending is not None:
            self.trace.append((a.idx,) + (a.pending[0],) + tuple(a.pending[1]))
        a.steps += 1
        self.clock += 1
        a.go.release()
        a.back.acquire()
        if a.done:
            a.finished_at = self.clock

    def _kill(self):
        self.abort = True
        for a in self.actors:
            while not a.done:
                a.go.release()
                a.back.acquire()
        for a in self.actors:
            a.thread.join(timeout=5)
        self._restore()

    def _restore(self):
        self.fs.hook = None
        self.fs.uuid_hook = None
        self._CJ.JSONCollection._lock_id = self._orig_lock_id
        for c, l in self._buf_locks.items():
            c._BUFFER_LOCK = l
        for c, t in self._lock_tables.items():
            c._locks = t

    def run(self):
        """returns 'done' or raises IgnoreAttempt (discarded schedule)"""
        for a in self.actors:
            a.thread.start()
            a.go.release()
            a.back.acquire()      # run to the first scheduling point
        sleeping = {}              # actor idx -> pending step it sleeps on
        last = None
        preempt = 0
        j = 0
        try:
            while True:
                enabled = [a for a in self.actors if not a.done]
                if not enabled:
                    break
                cands = [a for a in enabled if a.idx not in sleeping]
                if not cands:
                    self._kill()
                    discard("sleep-set blocked")
                if len(enabled) == 1:
                    pick = enabled[0] if cands else None
                else:
                    pick = None
                    for a in cands[:-1]:
                        if j < len(self.schedule):
                            v = self.schedule[j]
                            if decide(lambda: v == a.idx):
                                pick = a
                                break
                        else:
                            self._kill()
                            note("FATAL: schedule variables exhausted (a schedule needs more decision points than the harness provides)")
                            discard("schedule variables exhausted")
                    if pick is None:
                        pick = cands[-1]
                    j += 1
                # pre-emption accounting
                if last is not None and pick is not last and not last.done:
                    preempt += 1
                    if self.pb is not None and preempt > self.pb:
                        self._kill()
                        discard("pre-emption bound")
                # sleep sets: enabled, awake actors ordered before the pick go to sleep
                step = pick.pending
                for a in cands:
                    if a.idx < pick.idx:
                        sleeping[a.idx] = a.pending
                self._step(pick)
                # wake up sleepers whose pending step depends on the executed step
                if step is not None:
                    for i in [i for i, st in sleeping.items() if st is None or dependent(st, step)]:
                        del sleeping[i]
                last = pick
        except BaseException:
            if not all(a.done for a in self.actors):
                self._kill()
            raise
        for a in self.actors:
            a.thread.join(timeout=5)
        self._restore()
        return "done"
