"""Per-process counters shared by the CrossHair plugin and the harness helpers; dumped at exit to $VF_STATS."""
import atexit, json, os, time

S = {"paths": 0, "reached": 0, "queries": 0, "solver_s": 0.0, "functions": {}, "ignored": 0, "notes": []}
_t0 = time.time()


def _dump():
    if not os.environ.get("VF_STATS"):
        return
    S["wall_s"] = time.time() - _t0
    try:  # CrossHair's audit wall blocks file writes: report on stderr instead
        import sys
        try:
            txt = json.dumps(S, default=repr)
        except Exception:  # a sample that cannot be serialised (circular / exotic keys) must not lose the counters
            txt = json.dumps({k: v for k, v in S.items() if k != "samples"}, default=repr)
        sys.stderr.write("\nVFSTATS " + txt + "\n")
        sys.stderr.flush()
    except Exception:
        pass


atexit.register(_dump)
