"""Helpers used inside harness functions (run under CrossHair and under plain CPython for replay)."""
import functools, os
from vflib.stats import S

try:
    from crosshair.tracers import NoTracing, is_tracing
    from crosshair.util import IgnoreAttempt
    from crosshair.core import deep_realize
except Exception:  # pragma: no cover
    NoTracing = None


class _Null:
    def __enter__(self):
        return self

    def __exit__(self, *a):
        return False


def nt():
    """`with nt():` = NoTracing under CrossHair, nothing in a plain interpreter."""
    if NoTracing is not None and is_tracing():
        return NoTracing()
    return _Null()


def realize(x):
    if NoTracing is not None and is_tracing():
        return deep_realize(x)
    return x


def reached():
    """Call right before the deciding assertion(s): counts paths that got there (vacuity accounting)."""
    with nt():
        S["reached"] += 1


def discard(why=""):
    """Drop the current path (an assumption that can only be stated mid-run)."""
    with nt():
        S["ignored"] += 1
    if NoTracing is not None and is_tracing():
        raise IgnoreAttempt(why)
    raise _ReplayDiscard(why)


class _ReplayDiscard(BaseException):
    pass


def part_ok(i):
    """Partition filter: VF_PART='k/n' keeps only index values with i % n == k (i is a symbolic or concrete int)."""
    p = os.environ.get("VF_PART")
    if not p:
        return True
    k, n = p.split("/")
    return i % int(n) == int(k)


def tier():
    return os.environ.get("VERIF_TIER", "quick")


def entered(name):
    with nt():
        S["functions"][name] = S["functions"].get(name, 0) + 1


def spy(module, attr, label=None):
    """Wrap module.attr so that entering it is logged (evidence: functions actually encoded)."""
    f = getattr(module, attr)
    if getattr(f, "_vf_spy", False):
        return
    label = label or f"{module.__name__}.{attr}"

    @functools.wraps(f)
    def w(*a, **k):
        entered(label)
        return f(*a, **k)

    w._vf_spy = True
    setattr(module, attr, w)


def kf_filter(name, value):
    """Known-finding partition of the input space (see DESIGN §3.5).

    name is listed open  & mode exclude      -> assume `not value` (rest of the space must be confirmed)
    name is listed open  & mode only:<name>  -> assume `value`      (witness for the KNOWN-FINDING line)
    other open names in only-mode            -> assume `not value`
    name not listed open (unknown or fixed)  -> no assumption.
    """
    open_ = [x for x in os.environ.get("VF_KF_OPEN", "").split(",") if x]
    if name not in open_:
        return True
    mode = os.environ.get("VF_KF_MODE", "exclude")
    if mode == "only:" + name:
        return bool(value)
    return not value


def fresh_path():
    """Reset process-global memo state of the dependency so that every CrossHair path starts from the same state
    (synced_collections caches type -> category in AbstractTypeResolver.type_map; a warm cache changes the branch
    sequence and CrossHair reports NotDeterministic)."""
    with nt():
        import gc
        from synced_collections.utils import AbstractTypeResolver
        global _RESOLVERS
        try:
            rs = _RESOLVERS
        except NameError:
            rs = _RESOLVERS = [o for o in gc.get_objects() if isinstance(o, AbstractTypeResolver)]
        for r in rs:
            r.type_map.clear()
        # per-class registries of per-file thread locks, keyed by file name (a *symbolic* string in id harnesses):
        # stale keys from earlier paths would be compared with the current path's symbolic values.
        from synced_collections.data_types.synced_collection import SyncedCollection
        stack = [SyncedCollection]
        while stack:
            c = stack.pop()
            if isinstance(c.__dict__.get("_locks"), dict):
                c.__dict__["_locks"].clear()
            stack.extend(c.__subclasses__())


def pick(table, idx):
    """table[idx] for a symbolic idx by explicit branching (keeps table entries concrete: no symbolic float/str If-chains,
    whose realisation CrossHair cannot exhaust)."""
    for i in range(len(table)):
        if idx == i:
            return table[i]
    raise IndexError(idx)


def ci(x, lo, hi):
    """concrete int equal to the symbolic x in [lo, hi] (explicit branching; the solver decides each comparison)"""
    for v in range(lo, hi + 1):
        if x == v:
            return v
    raise ValueError("out of range")


def cb(x):
    return True if x else False
