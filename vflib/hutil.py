"""Helpers used inside harness functions (run under CrossHair and under plain CPython for replay)."""
import functools, os
from vflib.stats import S

try:
    from crosshair.tracers import NoTracing, is_tracing
    from crosshair.util import IgnoreAttempt
    from crosshair.core import deep_realize
except Exception:  # pragma: no cover
    NoTracing = None


class _Null:
    def __enter__(self):
        return self

    def __exit__(self, *a):
        return False


def nt():
    """`with nt():` = NoTracing under CrossHair, nothing in a plain interpreter."""
    if NoTracing is not None and is_tracing():
        return NoTracing()
    return _Null()


def realize(x):
    if NoTracing is not None and is_tracing():
        return deep_realize(x)
    return x


def reached():
    """Call right before the deciding assertion(s): counts paths that got there (vacuity accounting) and keeps the concrete
    arguments of the first few such paths as evidence samples (only plain concrete values of the caller's frame are recorded)."""
    with nt():
        S["reached"] += 1
        if len(S.setdefault("samples", [])) < 3:
            try:
                import sys
                fr = sys._getframe(1)
                if fr.f_code.co_name == "reached":
                    fr = fr.f_back
                args = {k: v for k, v in fr.f_locals.items()
                        if type(v) in (int, bool, str, float, type(None)) or (type(v) in (list, tuple) and all(type(x) in (int, bool, str, float, type(None), tuple) for x in v) and len(v) <= 8)}
                S["samples"].append({"harness": fr.f_code.co_name, "args": {k: (list(v) if isinstance(v, tuple) else v) for k, v in list(args.items())[:14]}})
            except Exception:
                pass


def discard(why=""):
    """Drop the current path (an assumption that can only be stated mid-run)."""
    with nt():
        S["ignored"] += 1
    if NoTracing is not None and (is_tracing() or in_crosshair()):
        raise IgnoreAttempt(why)
    raise _ReplayDiscard(why)


class _ReplayDiscard(BaseException):
    pass


def part_ok(i):
    """Partition filter: VF_PART='k/n' keeps only index values with i % n == k (i is a symbolic or concrete int)."""
    p = os.environ.get("VF_PART")
    if not p:
        return True
    k, n = p.split("/")
    return i % int(n) == int(k)


def tier():
    return os.environ.get("VERIF_TIER", "quick")


def entered(name):
    with nt():
        S["functions"][name] = S["functions"].get(name, 0) + 1


def spy(module, attr, label=None):
    """Wrap module.attr so that entering it is logged (evidence: functions actually encoded)."""
    f = getattr(module, attr)
    if getattr(f, "_vf_spy", False):
        return
    label = label or f"{module.__name__}.{attr}"

    @functools.wraps(f)
    def w(*a, **k):
        entered(label)
        return f(*a, **k)

    w._vf_spy = True
    setattr(module, attr, w)


def kf_filter(name, value):
    """Known-finding partition of the input space (see DESIGN §3.5).

    name is listed open  & mode exclude      -> assume `not value` (rest of the space must be confirmed)
    name is listed open  & mode only:<name>  -> assume `value`      (witness for the KNOWN-FINDING line)
    other open names in only-mode            -> assume `not value`
    name not listed open (unknown or fixed)  -> no assumption.
    """
    open_ = [x for x in os.environ.get("VF_KF_OPEN", "").split(",") if x]
    if name not in open_:
        return True
    mode = os.environ.get("VF_KF_MODE", "exclude")
    if mode == "only:" + name:
        return bool(value)
    return not value


def fresh_path():
    """Reset process-global memo state of the dependency so that every CrossHair path starts from the same state
    (synced_collections caches type -> category in AbstractTypeResolver.type_map; a warm cache changes the branch
    sequence and CrossHair reports NotDeterministic)."""
    with nt():
        import gc
        from synced_collections.utils import AbstractTypeResolver
        global _RESOLVERS
        try:
            rs = _RESOLVERS
        except NameError:
            rs = _RESOLVERS = [o for o in gc.get_objects() if isinstance(o, AbstractTypeResolver)]
        for r in rs:
            r.type_map.clear()
        # per-class registries of per-file thread locks, keyed by file name (a *symbolic* string in id harnesses):
        # stale keys from earlier paths would be compared with the current path's symbolic values.
        from synced_collections.data_types.synced_collection import SyncedCollection
        stack = [SyncedCollection]
        while stack:
            c = stack.pop()
            if isinstance(c.__dict__.get("_locks"), dict):
                c.__dict__["_locks"].clear()
            stack.extend(c.__subclasses__())
        reset_buffers()


_BUF_DEFAULT_CAP = {}


def reset_buffers():
    """Re-create the class-level buffering state of every file-buffered collection class (a crash inside signac.buffered()
    leaves the global buffer half flushed; each path / scenario must start from the pristine state)."""
    from synced_collections.buffers.file_buffered_collection import FileBufferedCollection, _FileBufferedContext
    stack = list(FileBufferedCollection.__subclasses__())
    seen = set()
    while stack:
        c = stack.pop()
        if c in seen:
            continue
        seen.add(c)
        stack.extend(c.__subclasses__())
        if "_buffer" in c.__dict__:
            if c not in _BUF_DEFAULT_CAP and "_BUFFER_CAPACITY" in c.__dict__:
                _BUF_DEFAULT_CAP[c] = c.__dict__["_BUFFER_CAPACITY"]
            if c in _BUF_DEFAULT_CAP:
                c._BUFFER_CAPACITY = _BUF_DEFAULT_CAP[c]
            c._CURRENT_BUFFER_SIZE = 0
            c._buffer = {}
            c._buffered_collections = {}
            cap = c.__dict__.get("_BUFFER_CAPACITY")
            c._buffer_context = _FileBufferedContext(c)


def pick(table, idx):
    """table[idx] for a symbolic idx by explicit branching (keeps table entries concrete: no symbolic float/str If-chains,
    whose realisation CrossHair cannot exhaust)."""
    for i in range(len(table)):
        if idx == i:
            return table[i]
    raise IndexError(idx)


def ci(x, lo, hi):
    """concrete int equal to the symbolic x in [lo, hi] (explicit branching; the solver decides each comparison)"""
    for v in range(lo, hi + 1):
        if x == v:
            return v
    raise ValueError("out of range")


def cb(x):
    return True if x else False


def in_crosshair():
    try:
        from crosshair.statespace import optional_context_statespace
        return optional_context_statespace() is not None
    except Exception:
        return False


def decide(thunk):
    """Evaluate a (possibly symbolic) boolean thunk and return a concrete bool. Under CrossHair the evaluation happens with tracing
    resumed, so the solver forks on it even when the caller runs inside NoTracing (native-speed real code, symbolic decisions)."""
    if NoTracing is not None and in_crosshair() and not is_tracing():
        from crosshair.tracers import ResumedTracing
        with ResumedTracing():
            return True if thunk() else False
    return True if thunk() else False


class FaultPlan:
    """Step hook for MemFS driven by symbolic ints: mode 0 none, 1 crash before step k, 2 torn write at step k (t bytes; a non-write step
    just crashes), 3 step k fails with errno e, 4 short write at step k (the device accepts only a prefix). k may be an unbounded symbolic int: each step asks the solver whether k == idx."""

    def __init__(self, mode, k, t=0, err=5, k2=None, err2=5, only=None):
        self.mode, self.k, self.t, self.err, self.k2, self.err2 = mode, k, t, err, k2, err2
        self.fired = []
        self.only = only  # optional predicate(name, args): restrict which steps count (others do not advance the counter)
        self.n = 0

    def __call__(self, fs, idx, name, args):
        if self.mode == 0:
            return None
        if self.only is not None and not self.only(name, args):
            return None
        i = self.n
        self.n += 1
        if decide(lambda: self.k == i):
            self.fired.append((i, name) + tuple(args))
            if self.mode == 1:
                return ("crash",)
            if self.mode == 2:
                return ("torn", self.t)
            if self.mode == 4:
                return ("short", self.t)
            return ("fail", self.err)
        if self.k2 is not None and decide(lambda: self.k2 == i):
            self.fired.append((i, name) + tuple(args))
            return ("fail", self.err2)
        return None


def note(msg):
    """record a remark in the per-process stats; the runner treats notes starting with 'FATAL:' as a harness error"""
    with nt():
        if len(S["notes"]) < 20 or msg not in S["notes"]:
            S["notes"].append(msg)
