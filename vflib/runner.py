"""vf runner: one `crosshair check` process per (harness, partition); verdict mapping, replay, known findings, evidence.

Exit codes: 0 property held on everything explored (only listed known findings seen); 1 reproduced, unlisted
violation (prints VIOLATION property=<id> replay=<path>); 3 harness error / inconclusive (never success).
"""
import argparse, concurrent.futures as cf, importlib.util, inspect, json, os, re, shlex, subprocess, sys, tempfile, time

HERE = os.path.dirname(os.path.dirname(os.path.abspath(__file__)))
PY = os.path.join(HERE, ".venv", "bin", "python")
EXIT_OK, EXIT_VIOLATION, EXIT_HARNESS = 0, 1, 3
# development aid only (never used by MANIFEST commands): VF_REPO=<scratch worktree> checks that tree instead of /repo
_ALT = os.environ.get("VF_REPO")
PYPATH = os.pathsep.join(([_ALT] if _ALT else []) + [HERE, os.path.join(HERE, "harness")])


def load_module(pid):
    fn = os.path.join(HERE, "harness", f"{pid}.py")
    spec = importlib.util.spec_from_file_location(f"harness_{pid}", fn)
    mod = importlib.util.module_from_spec(spec)
    sys.modules[spec.name] = mod
    spec.loader.exec_module(mod)
    return mod, fn


def known_findings(pid):
    with open(os.path.join(HERE, "known_findings.json")) as f:
        kf = json.load(f)
    return [e for e in kf["findings"] if e["property"] == pid]


_PROCS, _STOP = [], []     # development aid VF_FAILFAST=1: stop at the first reproduced violation (used by the seed matrix only)


RE_LINE = re.compile(r"^(?P<file>[^:]+):(?P<line>\d+): (?P<kind>error|info|warning): (?P<msg>.*)$")


def run_crosshair(fn, line, env, timeout, path_timeout, unblock, scratch):
    """Returns dict(verdict=confirmed|cex|inconclusive, msg, call, stats, out)."""
    stats_fn = os.path.join(scratch, f"stats_{os.getpid()}_{time.time_ns()}.json")
    e = dict(os.environ)
    e.update(env)
    e["VF_STATS"] = stats_fn
    e["PYTHONPATH"] = PYPATH
    e["PYTHONDONTWRITEBYTECODE"] = "1"
    e["PYTHONHASHSEED"] = "0"
    cmd = [PY, "-m", "crosshair", "check", "--analysis_kind", "asserts", "--report_all",
           "--per_condition_timeout", str(timeout), "--per_path_timeout", str(path_timeout),
           "--extra_plugin", os.path.join(HERE, "vflib", "plugin.py")]
    if unblock:
        cmd += ["--unblock", "EVERYTHING"]
    cmd += ["--", f"{fn}:{line}"]
    t0 = time.time()
    if _STOP:
        return dict(verdict="inconclusive", msg="skipped (fail-fast)", call=None, stats={}, wall=0.0, rc=None, err="")
    p = subprocess.Popen(cmd, env=e, stdout=subprocess.PIPE, stderr=subprocess.PIPE, text=True, cwd=HERE)
    _PROCS.append(p)
    try:
        out, err = p.communicate(timeout=timeout * 3 + 120)
        rc = p.returncode
    except subprocess.TimeoutExpired:
        p.kill()
        out, err = p.communicate()
        out, err, rc = out or "", "wall timeout", 124
    wall = time.time() - t0
    stats = {}
    for ln in (err or "").splitlines():
        if ln.startswith("VFSTATS "):
            try:
                stats = json.loads(ln[8:])
            except Exception:
                pass
    verdict, msg, call = "inconclusive", (out.strip() or err.strip()[-400:]), None
    for ln in out.splitlines():
        m = RE_LINE.match(ln)
        if not m:
            continue
        if m["kind"] == "error":
            verdict, msg = "cex", m["msg"]
            mm = re.search(r"when calling (.*)$", m["msg"])
            call = mm.group(1) if mm else None
            break
        if m["kind"] == "info" and "Confirmed over all paths" in m["msg"]:
            verdict, msg = "confirmed", m["msg"]
    if verdict == "cex" and call is None:
        verdict = "inconclusive"  # an error without a reproducible call (internal error etc.)
    if verdict == "confirmed" and stats.get("paths") is None:
        verdict, msg = "inconclusive", "confirmed, but the process reported no statistics: paths reaching the assertion cannot be counted (vacuity not excluded)"
    return dict(verdict=verdict, msg=msg, call=call, stats=stats, wall=wall, rc=rc, err=err[-2000:] if verdict == "inconclusive" else "")


def replay_call(pid, call, env=None):
    """Re-executes `call` (e.g. "h_x(1, True)") on the harness module in a plain interpreter. rc 1 = assertion reproduced."""
    e = dict(os.environ)
    e.update(env or {})
    e["VF_REPLAY"] = "1"
    e["PYTHONPATH"] = PYPATH
    e["PYTHONDONTWRITEBYTECODE"] = "1"
    p = subprocess.run([PY, "-m", "vflib.replay", pid, call], env=e, capture_output=True, text=True, cwd=HERE, timeout=600)
    return p.returncode, (p.stdout + p.stderr)[-3000:]


def main(argv=None):
    ap = argparse.ArgumentParser()
    sub = ap.add_subparsers(dest="cmd", required=True)
    c = sub.add_parser("check")
    c.add_argument("pid")
    c.add_argument("--tier", default=os.environ.get("VERIF_TIER", "quick"), choices=["quick", "thorough"])
    c.add_argument("--only", default=None, help="comma separated harness names (debugging; evidence marked partial)")
    c.add_argument("--jobs", type=int, default=int(os.environ.get("VF_JOBS", "16")))
    r = sub.add_parser("replay")
    r.add_argument("pid")
    r.add_argument("path")
    s = sub.add_parser("selftest")
    a = ap.parse_args(argv)
    if a.cmd == "replay":
        with open(a.path) as f:
            d = json.load(f)
        rc, out = replay_call(a.pid, d["call"], d.get("env"))
        print(out)
        print("REPRODUCED" if rc == 1 else f"not reproduced (rc={rc})")
        return 1 if rc == 1 else 0
    if a.cmd == "selftest":
        from vflib import selftest
        return selftest.main()
    return check(a)


def check(a):
    pid, tier = a.pid, a.tier
    os.environ["VERIF_TIER"] = tier
    seed = int(os.environ.get("VERIF_SEED", "0") or 0)
    t_start = time.time()
    mod, fn = load_module(pid)
    src_lines, _ = inspect.getsourcelines(mod)
    harnesses = [h for h in mod.HARNESSES if tier in h.get("tiers", ("quick", "thorough"))]
    if a.only:
        keep = set(a.only.split(","))
        harnesses = [h for h in harnesses if h["name"] in keep]
    kfs = known_findings(pid)
    open_kf = [k for k in kfs if k["status"] == "open"]
    scratch = tempfile.mkdtemp(prefix=f"vf_{pid}_", dir="/dev/shm" if os.path.isdir("/dev/shm") else None)
    ti = 0 if tier == "quick" else 1

    def pick(v):
        return v[ti] if isinstance(v, (tuple, list)) else v

    tasks = []  # (harness, role, env, label)
    for h in harnesses:
        line = inspect.getsourcelines(getattr(mod, h["name"]))[1] + 1
        nparts = pick(h.get("parts", 1))
        timeout = pick(h.get("timeout", (120, 900)))
        ptimeout = pick(h.get("path_timeout", 60))
        hk = [k for k in open_kf if k["signature"]["harness"] == h["name"]]
        base_env = {"VF_KF_OPEN": ",".join(k["signature"]["predicate"] for k in hk), "VF_KF_MODE": "exclude"}
        base_env.update({k: str(pick(v)) for k, v in h.get("env", {}).items()})
        for i in range(nparts):
            env = dict(base_env)
            if nparts > 1:
                env["VF_PART"] = f"{i}/{nparts}"
            tasks.append((h, "main", env, line, timeout, ptimeout, f"{h['name']}[{i}/{nparts}]"))
        if h.get("twin"):
            tl = inspect.getsourcelines(getattr(mod, h["twin"]))[1] + 1
            tasks.append((h, "twin", dict(base_env), tl, pick(h.get("twin_timeout", (60, 120))), ptimeout, h["twin"]))
        for k in hk:
            env = dict(base_env)
            env["VF_KF_MODE"] = "only:" + k["signature"]["predicate"]
            tasks.append((h, "kf:" + k["id"], env, line, pick(h.get("kf_timeout", (90, 300))), ptimeout, f"{h['name']}<{k['id']}>"))

    results = []
    with cf.ThreadPoolExecutor(max_workers=a.jobs) as ex:
        futs = {ex.submit(run_crosshair, fn, t[3], t[2], t[4], t[5], t[0].get("unblock", False), scratch): t for t in tasks}
        for fu in cf.as_completed(futs):
            t = futs[fu]
            res = fu.result()
            res.update(harness=t[0]["name"], role=t[1], label=t[6], env=t[2])
            results.append(res)
            if os.environ.get("VF_FAILFAST") and not _STOP and t[1] == "main" and res["verdict"] == "cex":
                rc_, _o = replay_call(pid, res["call"], {k: v for k, v in res["env"].items() if k.startswith("VF_KF") or k.startswith("VFH_")})
                if rc_ == 1:
                    _STOP.append(1)
                    for p_ in _PROCS:
                        if p_.poll() is None:
                            p_.kill()
            print(f"  [{res['verdict']:12s}] {t[6]:55s} paths={res['stats'].get('paths', '?')} reached={res['stats'].get('reached', '?')} "
                  f"queries={res['stats'].get('queries', '?')} {res['wall']:.1f}s", flush=True)

    violations, harness_errors, kf_lines, samples, twins_fired = [], [], [], [], 0
    os.makedirs(os.path.join(HERE, "evidence", "cex"), exist_ok=True)
    for res in sorted(results, key=lambda r: r["label"]):
        role = res["role"]
        fatal = [n for n in res["stats"].get("notes", []) if str(n).startswith("FATAL:")]
        if fatal:
            harness_errors.append(f"{res['label']}: {fatal[0]}")
        if role == "main":
            if res["verdict"] == "confirmed":
                continue
            if res["verdict"] == "cex":
                rc, out = replay_call(pid, res["call"], {k: v for k, v in res["env"].items() if k.startswith("VF_KF") or k.startswith("VFH_")})
                if rc == 1:
                    path = os.path.join(HERE, "evidence", "cex", f"{pid}_{res['harness']}.json")
                    with open(path, "w") as f:
                        json.dump({"property": pid, "harness": res["harness"], "call": res["call"], "msg": res["msg"],
                                   "env": {k: v for k, v in res["env"].items() if k.startswith("VFH_")}, "replay_output": out}, f, indent=1)
                    violations.append((res, path))
                else:
                    harness_errors.append(f"{res['label']}: counterexample {res['call']} did not reproduce in replay (rc={rc}): {out[-300:]}")
            else:
                harness_errors.append(f"{res['label']}: inconclusive: {res['msg'][:300]} {res['err'][-300:]}")
        elif role == "twin":
            if res["verdict"] == "cex":
                twins_fired += 1
                samples.append({"twin": res["label"], "witness": res["call"]})
            else:
                harness_errors.append(f"{res['label']}: vacuity twin did not fire ({res['verdict']}: {res['msg'][:200]})")
        else:
            kid = role[3:]
            k = [x for x in open_kf if x["id"] == kid][0]
            if res["verdict"] == "cex":
                rc, out = replay_call(pid, res["call"], {"VF_KF_OPEN": res["env"]["VF_KF_OPEN"], "VF_KF_MODE": res["env"]["VF_KF_MODE"]})
                if rc == 1:
                    kf_lines.append(f"KNOWN-FINDING: property={pid} {k['what']} [witness {res['call']}]")
                    samples.append({"known_finding": kid, "witness": res["call"]})
                else:
                    harness_errors.append(f"{res['label']}: known-finding witness {res['call']} did not reproduce")
            elif res["verdict"] == "confirmed":
                print(f"NOTE: known finding {kid} no longer reproduces (confirmed absent within bounds); consider marking it fixed")
            else:
                harness_errors.append(f"{res['label']}: inconclusive known-finding run: {res['msg'][:200]}")

    # vacuity: a harness all of whose partitions are confirmed without a single path reaching the deciding assertion proves nothing
    # (single partitions may be empty: the tier restrictions leave some residue classes without members)
    for hname in sorted({r["harness"] for r in results if r["role"] == "main"}):
        rs = [r for r in results if r["role"] == "main" and r["harness"] == hname]
        if all(r["verdict"] == "confirmed" for r in rs) and not sum(int(r["stats"].get("reached") or 0) for r in rs):
            harness_errors.append(f"{hname}: confirmed, but no path of any partition reached the deciding assertion (vacuous)")
    for ln in kf_lines:
        print(ln)
    # concrete validations / extra engines declared by the module (E3 z3 queries, golden ids, stub validation)
    extra = {}
    if hasattr(mod, "extra_checks") and not a.only:
        try:
            extra = mod.extra_checks(tier) or {}
        except Exception as ex:  # noqa
            import traceback
            harness_errors.append("extra_checks crashed: " + traceback.format_exc()[-1500:])
        for v in extra.get("violations", []):
            path = os.path.join(HERE, "evidence", "cex", f"{pid}_{v['name']}.json")
            with open(path, "w") as f:
                json.dump({"property": pid, "harness": v["name"], "call": v.get("call"), "msg": v["msg"]}, f, indent=1)
            if v.get("known"):
                print(f"KNOWN-FINDING: property={pid} {v['known']} [witness {v.get('witness')}]")
            else:
                violations.append(({"label": v["name"], "msg": v["msg"], "call": v.get("call")}, path))
        harness_errors += extra.get("errors", [])
        samples += extra.get("samples", [])

    mains = [r for r in results if r["role"] == "main"]
    tot = lambda key: sum(r["stats"].get(key, 0) for r in results)
    functions = {}
    for r in results:
        for k, v in r["stats"].get("functions", {}).items():
            functions[k] = functions.get(k, 0) + v
    exhaustive = bool(mains) and all(r["verdict"] == "confirmed" for r in mains) and not harness_errors and not a.only
    explored = []
    for r in mains:
        for smp in r["stats"].get("samples", [])[:1]:
            explored.append({"explored_case": r["label"], **smp})
    samples = samples + explored[:10]
    if not samples:
        samples = [{"harness": r["label"], "verdict": r["verdict"]} for r in mains[:3]]
    ev = {
        "property_id": pid, "tier": tier, "seed": seed, "level": "model_checking",
        "coverage": {
            "evaluations": int(tot("paths") + extra.get("evaluations", 0)),
            "distinct_nontrivial": int(sum(r["stats"].get("reached", 0) for r in mains) + extra.get("distinct", 0)),
            "rule": "one evaluation = one execution path of a harness explored by CrossHair (path condition decided by z3; disjoint input classes), "
                    "plus one per direct z3 query; non-trivial = the path satisfied every assumption and reached the deciding assertion "
                    "(counted by the harness epilogue), so each counted case is a distinct class of inputs/steps/schedules on which the real code ran to the oracle",
            "samples": samples[:16],
            "exhaustive": exhaustive,
            "traces_validated_against_impl": int(extra.get("traces_validated", 0)),
            "harnesses": {r["label"]: {"verdict": r["verdict"], "role": r["role"], "paths": r["stats"].get("paths"), "reached": r["stats"].get("reached"),
                                       "discarded": r["stats"].get("ignored"), "queries": r["stats"].get("queries"),
                                       "solver_s": round(r["stats"].get("solver_s", 0), 2), "wall_s": round(r["wall"], 1)} for r in results},
            "functions_encoded": functions,
            "declared_code": getattr(mod, "CODE", []),
            "bounds": getattr(mod, "BOUNDS", {}),
            "outside_bounds": getattr(mod, "OUTSIDE", []),
            "stubs": getattr(mod, "STUBS", []),
            "queries": int(tot("queries") + extra.get("queries", 0)),
            "solver_s": round(tot("solver_s") + extra.get("solver_s", 0.0), 2),
            "twins_fired": twins_fired,
            "known_findings_reported": [ln for ln in kf_lines],
            "extra": extra.get("info", {}),
            "partial_run": bool(a.only),
            "harness_errors": harness_errors,
        },
        "assumptions": getattr(mod, "ASSUMPTIONS", []),
        "wall_s": round(time.time() - t_start, 1),
        "violations": len(violations),
    }
    if ev["coverage"]["distinct_nontrivial"] < 2:
        ev["coverage"]["distinct_nontrivial"] = ev["coverage"]["distinct_nontrivial"]  # reported as measured
    evdir = os.path.join(HERE, "evidence", "_dev") if _ALT else os.path.join(HERE, "evidence")
    os.makedirs(evdir, exist_ok=True)
    with open(os.path.join(evdir, f"{pid}.json"), "w") as f:
        json.dump(ev, f, indent=1, default=str)
    try:
        import shutil
        shutil.rmtree(scratch, ignore_errors=True)
    except Exception:
        pass
    if violations:
        for res, path in violations:
            print(f"violation in {res['label']}: {res.get('msg')}")
            print(f"VIOLATION property={pid} replay={path}")
        return EXIT_VIOLATION
    if harness_errors:
        for e in harness_errors:
            print("HARNESS-ERROR:", e)
        return EXIT_HARNESS
    print(f"OK property={pid} tier={tier} harnesses={len(mains)} paths={tot('paths')} queries={tot('queries')} solver_s={tot('solver_s'):.1f} wall={time.time() - t_start:.1f}s")
    return EXIT_OK


if __name__ == "__main__":
    sys.exit(main())
