"""sre_parse -> z3 regular-expression translator (E3). The regexes are taken from the *live* signac objects at run time.

Supported: literals, character classes (ranges, \\d \\w \\s, negation), '.', repeats (greedy/lazy are the same language),
groups (named or not), alternation, a trailing '$' (= end or before one final newline). Anything else raises
NotImplementedError -> the check reports a harness error instead of guessing.
"""
import re
import time

try:
    import re._parser as sp, re._constants as sc
except ImportError:  # pragma: no cover
    import sre_parse as sp, sre_constants as sc
import z3

ANY = lambda: z3.AllChar(z3.ReSort(z3.StringSort()))
FULL = lambda: z3.Full(z3.ReSort(z3.StringSort()))


def _cls_item(op, av):
    if op is sc.LITERAL:
        return z3.Re(chr(av))
    if op is sc.RANGE:
        return z3.Range(chr(av[0]), chr(av[1]))
    if op is sc.CATEGORY:
        if av is sc.CATEGORY_DIGIT:
            return z3.Range("0", "9")
        if av is sc.CATEGORY_WORD:
            # ASCII word characters; non-ASCII word characters are outside the modelled alphabet (stated in evidence)
            return z3.Union(z3.Range("0", "9"), z3.Range("a", "z"), z3.Range("A", "Z"), z3.Re("_"))
        if av is sc.CATEGORY_SPACE:
            return z3.Union(*[z3.Re(c) for c in " \t\n\r\f\v"])
    raise NotImplementedError((op, av))


_END, _BEG = object(), object()


def _tr(seq):
    parts = []
    for op, av in seq:
        if op is sc.LITERAL:
            parts.append(z3.Re(chr(av)))
        elif op is sc.NOT_LITERAL:
            parts.append(z3.Intersect(ANY(), z3.Complement(z3.Re(chr(av)))))
        elif op is sc.IN:
            neg = bool(av) and av[0][0] is sc.NEGATE
            items = [_cls_item(o, a) for o, a in av if o is not sc.NEGATE]
            u = items[0] if len(items) == 1 else z3.Union(*items)
            parts.append(z3.Intersect(ANY(), z3.Complement(u)) if neg else u)
        elif op in (sc.MAX_REPEAT, sc.MIN_REPEAT):
            lo, hi, sub = av
            r = _tr(sub)
            if hi is sc.MAXREPEAT:
                parts.append(z3.Star(r) if lo == 0 else (z3.Plus(r) if lo == 1 else z3.Concat(*([r] * lo + [z3.Star(r)]))))
            elif lo == 0 and hi == 1:
                parts.append(z3.Option(r))
            else:
                parts.append(z3.Loop(r, lo, hi))
        elif op is sc.SUBPATTERN:
            parts.append(_tr(av[3]))
        elif op is sc.BRANCH:
            parts.append(z3.Union(*[_tr(b) for b in av[1]]))
        elif op is sc.ANY:
            parts.append(z3.Intersect(ANY(), z3.Complement(z3.Re("\n"))))
        elif op is sc.AT:
            if av is sc.AT_END:
                parts.append(_END)
            elif av is sc.AT_BEGINNING:
                parts.append(_BEG)
            else:
                raise NotImplementedError(av)
        else:
            raise NotImplementedError((op, av))
    out = []
    for i, p in enumerate(parts):
        if p is _END:
            if i != len(parts) - 1:
                raise NotImplementedError("'$' not at the end")
            out.append(z3.Option(z3.Re("\n")))
        elif p is _BEG:
            if i != 0:
                raise NotImplementedError("'^' not at the start")
        else:
            out.append(p)
    if not out:
        return z3.Re("")
    return out[0] if len(out) == 1 else z3.Concat(*out)


def lang(pattern):
    """language of strings s with re.fullmatch-like semantics (a trailing '$' admits one final newline)"""
    if isinstance(pattern, re.Pattern):
        if pattern.flags & ~(re.UNICODE):
            raise NotImplementedError(f"flags {pattern.flags}")
        pattern = pattern.pattern
    return _tr(sp.parse(pattern))


def lang_for(pattern, method):
    """language accepted by re.<method>(pattern, s): match = prefix, fullmatch = whole, search = anywhere"""
    L = lang(pattern)
    ends_dollar = isinstance(pattern, str) and pattern.endswith("$") or (isinstance(pattern, re.Pattern) and pattern.pattern.endswith("$"))
    if method == "fullmatch":
        return L
    if method == "match":
        return L if ends_dollar else z3.Concat(L, FULL())
    if method == "search":
        return z3.Concat(FULL(), L) if ends_dollar else z3.Concat(FULL(), L, FULL())
    raise ValueError(method)


class Q:
    """bookkeeping of discharged queries"""

    def __init__(self):
        self.n = 0
        self.t = 0.0
        self.log = []

    def included(self, name, A, B, timeout_ms=60000):
        """is L(A) a subset of L(B)?  returns (True, None) / (False, witness) / (None, reason)"""
        s = z3.String("s")
        sol = z3.Solver()
        sol.set("timeout", timeout_ms)
        sol.add(z3.InRe(s, A), z3.Not(z3.InRe(s, B)))
        t0 = time.time()
        r = sol.check()
        dt = time.time() - t0
        self.n += 1
        self.t += dt
        res = str(r)
        w = sol.model()[s].as_string() if res == "sat" else None
        if w is not None:
            w = _unescape(w)
        self.log.append({"query": name, "result": {"unsat": "included", "sat": "NOT included", "unknown": "unknown"}[res], "witness": w, "s": round(dt, 4)})
        if res == "unsat":
            return True, None
        if res == "sat":
            return False, w
        return None, sol.reason_unknown()

    def nonempty(self, name, A, timeout_ms=60000):
        s = z3.String("s")
        sol = z3.Solver()
        sol.set("timeout", timeout_ms)
        sol.add(z3.InRe(s, A))
        t0 = time.time()
        r = str(sol.check())
        self.n += 1
        self.t += time.time() - t0
        w = _unescape(sol.model()[s].as_string()) if r == "sat" else None
        self.log.append({"query": name, "result": "nonempty" if r == "sat" else r, "witness": w})
        return (True, w) if r == "sat" else ((False, None) if r == "unsat" else (None, None))


def _unescape(w):
    # z3 prints non-printable characters as \u{..}
    return re.sub(r"\\u\{([0-9a-fA-F]+)\}", lambda m: chr(int(m.group(1), 16)), w)
