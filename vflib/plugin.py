"""CrossHair --extra_plugin: counts paths, z3 check() calls and solver seconds (written by vflib.stats at exit).
CrossHair exec()s plugin files with separate globals/locals, so everything lives in vflib._plugin_impl."""
import vflib._plugin_impl  # noqa
