#!/bin/bash
# Idempotent offline bootstrap of /verif/.venv (overlay on /venv + crosshair-tool from the wheelhouse).
set -e
V=/verif/.venv
HERE="$(cd "$(dirname "$0")/.." && pwd)"
V="$HERE/.venv"
if [ ! -x "$V/bin/crosshair" ] || ! "$V/bin/python" -c "import crosshair, z3, signac" >/dev/null 2>&1; then
  (
    flock 9
    if [ ! -x "$V/bin/crosshair" ] || ! "$V/bin/python" -c "import crosshair, z3, signac" >/dev/null 2>&1; then
      rm -rf "$V"
      /venv/bin/python -m venv "$V"
      SP=$("$V/bin/python" -c "import sysconfig; print(sysconfig.get_paths()['purelib'])")
      echo "import site; site.addsitedir('/venv/lib/python3.12/site-packages')" > "$SP/_vf_overlay.pth"
      PIP_NO_INDEX=1 "$V/bin/pip" install -q --no-index --find-links /opt/veriftools/wheels crosshair-tool >/dev/null
      "$V/bin/python" -c "import crosshair, z3, signac; assert signac.__file__.startswith('/repo/'), signac.__file__"
    fi
  ) 9>"$HERE/.bootstrap.lock"
fi
