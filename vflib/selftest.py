"""Validation of the MemFS model against the real file system: every scenario (plain, with a crash at each step, with each
fault-eligible step failing EIO/EACCES) is run once on MemFS and once on RealFS (tmpfs) with the identical step hook;
step logs, raised exception types and the resulting trees must be identical. Returns the number of scenario pairs compared."""
import errno, json, os, sys, traceback
from vflib import memfs


def _scenarios():
    def base(fs):
        pr = memfs.mkproject(fs)
        j = pr.open_job({"a": 0}).init()
        fs.put(j.path + "/f", b"F")
        fs.put(j.path + "/sub/g", b"G")
        j.document["k"] = 1
        pr.open_job({"a": 5}).init()
        return pr, j

    def s_init(fs):
        pr = memfs.mkproject(fs)
        yield
        pr.open_job({"a": 1, "b": [1, 2.5, None, "x"]}).init()

    def s_reinit(fs):
        pr, j = base(fs)
        yield
        pr.open_job({"a": 0}).init()

    def s_rekey(fs):
        pr, j = base(fs)
        yield
        j.statepoint["a"] = 1

    def s_rekey_collide(fs):
        pr, j = base(fs)
        yield
        j.statepoint["a"] = 5

    def s_rekey_emptydir(fs):
        pr, j = base(fs)
        from signac.job import calc_id
        fs.put_dir("/p/workspace/" + calc_id({"a": 1}))
        yield
        j.statepoint = {"a": 1}

    def s_move(fs):
        pr, j = base(fs)
        q = memfs.mkproject(fs, "/q")
        yield
        j.move(q)

    def s_clone(fs):
        pr, j = base(fs)
        q = memfs.mkproject(fs, "/q")
        yield
        q.clone(j)

    def s_clone_exists(fs):
        pr, j = base(fs)
        q = memfs.mkproject(fs, "/q")
        q.open_job({"a": 0}).init()
        yield
        q.clone(j)

    def s_remove(fs):
        pr, j = base(fs)
        yield
        j.remove()

    def s_clear(fs):
        pr, j = base(fs)
        yield
        j.clear()

    def s_reset(fs):
        pr, j = base(fs)
        yield
        j.reset()

    def s_doc(fs):
        pr, j = base(fs)
        yield
        j.document["big"] = list(range(50))
        del j.document["k"]

    def s_pdoc(fs):
        pr, j = base(fs)
        yield
        pr.document["x"] = {"y": 1}

    def s_cache(fs):
        pr, j = base(fs)
        yield
        pr.update_cache()
        pr2 = memfs.mkproject(fs)
        pr2.open_job({"a": 9}).init()
        pr2.update_cache()
        list(pr2.find_jobs({"a": 9}))

    def s_check_repair(fs):
        pr, j = base(fs)
        pr.update_cache()
        fs.put(j.path + "/signac_statepoint.json", b'{"a": 0')
        yield
        pr2 = memfs.mkproject(fs)
        try:
            pr2.check()
        except Exception:
            pass
        pr2.repair()

    def s_buffered(fs):
        import signac
        pr, j = base(fs)
        yield
        with signac.buffered():
            j.document["b1"] = 1
            j.document["b2"] = [1, 2]
            pr.open_job({"a": 5}).document["z"] = 0

    return [s_init, s_reinit, s_rekey, s_rekey_collide, s_rekey_emptydir, s_move, s_clone, s_clone_exists, s_remove, s_clear, s_reset, s_doc, s_pdoc, s_cache, s_check_repair, s_buffered]


class _Hook:
    def __init__(self, start, k, act):
        self.start, self.k, self.act = start, k, act

    def __call__(self, fs, idx, name, args):
        if self.k is not None and idx - self.start == self.k:
            return self.act
        return None


def _run(scn, fs, k, act):
    from vflib.hutil import reset_buffers
    reset_buffers()
    memfs.install(fs)
    out = {"exc": None}
    try:
        g = scn(fs)
        next(g)
        start = fs.step
        fs.log.clear()
        fs.hook = _Hook(start, k, act)
        try:
            next(g)
        except StopIteration:
            pass
        except memfs.Crash:
            out["exc"] = "Crash"
        except Exception as e:  # noqa
            out["exc"] = type(e).__name__ + (":%s" % e.errno if isinstance(e, OSError) else "")
        fs.hook = None
        fs.revive()
        out["log"] = [tuple(x) for x in fs.log]
        out["tree"] = {k_: v for k_, v in fs.snapshot("/").items()}
        out["nsteps"] = len(fs.log)
    finally:
        memfs.uninstall()
    return out


def _strip_gz(tree):
    # gzip streams embed nothing time dependent here (mtime=0) -> compared verbatim
    return tree


def main(quick=False, verbose=True):
    import logging
    logging.disable(logging.CRITICAL)
    root = "/dev/shm/vf_selftest_%d" % os.getpid()
    n = 0
    bad = []
    scns = _scenarios()
    for scn in scns:
        plain = _run(scn, memfs.MemFS(), None, None)
        cases = [(None, None)]
        for k in range(plain["nsteps"]):
            name = plain["log"][k][0]
            cases.append((k, ("crash",)))
            if name not in memfs.NOFAULT_STEPS:
                cases.append((k, ("fail", errno.EIO)))
                if not quick:
                    cases.append((k, ("fail", errno.EACCES)))
            if name == "write":
                cases.append((k, ("torn", 3)))
        if quick:
            cases = cases[:1] + cases[1::3]
        for k, act in cases:
            a = _run(scn, memfs.MemFS(), k, act)
            r = memfs.RealFS(root)
            try:
                b = _run(scn, r, k, act)
            finally:
                r.cleanup()
            n += 1
            if a["exc"] != b["exc"] or a["log"] != b["log"] or a["tree"] != b["tree"]:
                diff = {"scenario": scn.__name__, "k": k, "act": act, "exc": (a["exc"], b["exc"])}
                if a["log"] != b["log"]:
                    for i, (x, y) in enumerate(zip(a["log"] + [None] * 50, b["log"] + [None] * 50)):
                        if x != y:
                            diff["first_log_diff"] = (i, x, y)
                            break
                if a["tree"] != b["tree"]:
                    ka = set(a["tree"]) ^ set(b["tree"])
                    diff["tree_keys_diff"] = sorted(ka)[:6]
                    diff["tree_content_diff"] = [p for p in set(a["tree"]) & set(b["tree"]) if a["tree"][p] != b["tree"][p]][:6]
                bad.append(diff)
    if verbose:
        print(f"selftest: {n} scenario pairs (MemFS vs real tmpfs) compared, {len(bad)} disagreements")
        for d in bad[:10]:
            print("  DISAGREE", d)
    return n, bad


if __name__ == "__main__":
    n, bad = main(quick="--quick" in sys.argv)
    sys.exit(1 if bad else 0)
