"""MemFS: the environment stub of engine E2 — an in-memory POSIX file-system model with numbered steps.

Every file-system call of the code under test is a *step*. Before the step takes effect the step hook is consulted; it may
let it run, crash the process (`Crash`, a BaseException), make the call fail with an errno, or tear a write. A second back end
(`RealFS`) performs the same numbered steps on a real directory tree (under /dev/shm) — used to validate the model against the
kernel (vflib.selftest) and to replay counterexamples on the real file system.

Model: path -> inode, inode -> bytes (files) or None (directories); rename atomic; rename over a non-empty directory fails
ENOTEMPTY, over an empty directory succeeds; open(..,'wb') truncates; write appends; readers hold the inode they opened.
"""
import errno as E
import io
import os as _os
import posixpath
import shutil as _shutil
import types
import gzip as _gzip


class Crash(BaseException):
    """process death at a file-system step"""


class Abort(BaseException):
    """used by the scheduler to unwind actor threads of a discarded schedule"""


READ_STEPS = frozenset({"open_r", "read", "listdir", "isfile", "isdir", "exists", "stat", "islink"})
NOFAULT_STEPS = frozenset({"isfile", "isdir", "exists", "islink", "close"})


def _err(code, path, path2=None):
    if path2 is not None:
        return OSError(code, _os.strerror(code), path, None, path2)
    return OSError(code, _os.strerror(code), path)


class MemFS:
    kind = "mem"

    def __init__(self):
        self.ino = {1: None}          # inode -> bytes | None(dir)
        self.tree = {"/": 1}          # path -> inode
        self.mtime = {1: 0}
        self.next_ino = 2
        self.clock = 1
        self.step = 0
        self.hook = None              # hook(fs, idx, name, args) -> None | ("crash",) | ("fail", errno) | ("torn", nbytes)
        self.log = []
        self.logging = True
        self.uuid_n = 0
        self.uuid_hook = None
        self.read_monitor = None      # callable(path, bytes) for every completed read
        self.list_reverse = False     # directory listing order: sorted or reverse sorted (the kernel promises no order)
        self.cwd = "/"
        self.dead = False

    # ------------------------------------------------------------------ step machinery
    def tick(self, name, *args):
        if self.dead:
            # the process died at an earlier step: clean-up code (finally / __exit__ / bare except) run by the interpreter while the
            # Crash exception unwinds must not touch the file system any more
            raise Crash("dead", name, args)
        idx = self.step
        self.step += 1
        if self.logging:
            self.log.append((name,) + args)
        act = self.hook(self, idx, name, args) if self.hook is not None else None
        if act is None:
            return None
        if act[0] == "crash":
            self.dead = True
            raise Crash(idx, name, args)
        if act[0] == "fail":
            if name in NOFAULT_STEPS:
                return None
            raise _err(act[1], args[0] if args else None)
        if act[0] == "deny":
            # the path became inaccessible (search permission revoked, device error): os.path.isfile/isdir/exists swallow the stat error
            # and answer False; every other call raises
            if name in ("isfile", "isdir", "exists"):
                return ("query_false",)
            if name in NOFAULT_STEPS:
                return None
            raise _err(act[1], args[0] if args else None)
        if act[0] == "torn":
            if name == "write":
                return act
            self.dead = True
            raise Crash(idx, name, args)
        if act[0] == "short":
            # the device accepts only a prefix (disk full / quota / file size limit): meaningful for write steps only
            return act if name == "write" else None
        raise ValueError(act)

    # ------------------------------------------------------------------ primitive state access (no steps)
    def _norm(self, p):
        p = _os.fspath(p)
        if not p.startswith("/"):
            p = posixpath.join(self.cwd, p)
        return posixpath.normpath(p)

    def _is_dir(self, p):
        return p in self.tree and self.ino[self.tree[p]] is None

    def _is_file(self, p):
        return p in self.tree and self.ino[self.tree[p]] is not None

    def _children(self, p):
        pre = p.rstrip("/") + "/"
        return [k for k in self.tree if k.startswith(pre)]

    def _parent_ok(self, p):
        d = posixpath.dirname(p)
        if d not in self.tree:
            raise _err(E.ENOENT, p)
        if not self._is_dir(d):
            raise _err(E.ENOTDIR, p)

    def _new(self, content):
        i = self.next_ino
        self.next_ino += 1
        self.ino[i] = content
        self.mtime[i] = self.clock
        self.clock += 1
        return i

    def _touch(self, p):
        d = posixpath.dirname(p)
        if d in self.tree:
            self.mtime[self.tree[d]] = self.clock
            self.clock += 1

    # raw helpers for harness set-up and inspection (not steps)
    def put(self, p, content):
        p = self._norm(p)
        d = posixpath.dirname(p)
        if d not in self.tree:
            self.put_dir(d)
        self.tree[p] = self._new(bytes(content))

    def put_dir(self, p):
        p = self._norm(p)
        cur = ""
        for x in [x for x in p.split("/") if x]:
            cur += "/" + x
            if cur not in self.tree:
                self.tree[cur] = self._new(None)

    def revive(self):
        """after a simulated crash: the 'restarted' harness may use the file system again"""
        self.dead = False

    def get(self, p):
        p = self._norm(p)
        return self.ino[self.tree[p]] if p in self.tree else None

    def snapshot(self, root="/"):
        root = self._norm(root)
        pre = root.rstrip("/") + "/"
        return {k[len(pre):]: self.ino[i] for k, i in self.tree.items() if k.startswith(pre) and k != pre}

    def delete_raw(self, p):
        p = self._norm(p)
        for k in [k for k in self.tree if k == p or k.startswith(p + "/")]:
            del self.tree[k]

    def rename_raw(self, a, b):
        a, b = self._norm(a), self._norm(b)
        sub = [(k, v) for k, v in self.tree.items() if k == a or k.startswith(a + "/")]
        for k, _ in sub:
            del self.tree[k]
        for k, v in sub:
            self.tree[b + k[len(a):]] = v

    # ------------------------------------------------------------------ effects (overridden by RealFS)
    def _do_replace(self, a, b):
        if a not in self.tree:
            raise _err(E.ENOENT, a, b)
        self._parent_ok(b)
        if b == a:
            return
        if b.startswith(a + "/"):
            raise _err(E.EINVAL, a, b)
        if self._is_dir(a):
            if b in self.tree:
                if not self._is_dir(b):
                    raise _err(E.ENOTDIR, a, b)
                if self._children(b):
                    raise _err(E.ENOTEMPTY, a, b)
            sub = [(k, v) for k, v in self.tree.items() if k == a or k.startswith(a + "/")]
            for k, _ in sub:
                del self.tree[k]
            for k, v in sub:
                self.tree[b + k[len(a):]] = v
        else:
            if b in self.tree and self._is_dir(b):
                raise _err(E.EISDIR, a, b)
            self.tree[b] = self.tree.pop(a)
        self._touch(a)
        self._touch(b)

    def _do_remove(self, p):
        if p not in self.tree:
            raise _err(E.ENOENT, p)
        if self._is_dir(p):
            raise _err(E.EISDIR, p)
        del self.tree[p]
        self._touch(p)

    def _do_rmdir(self, p):
        if p not in self.tree:
            raise _err(E.ENOENT, p)
        if not self._is_dir(p):
            raise _err(E.ENOTDIR, p)
        if self._children(p):
            raise _err(E.ENOTEMPTY, p)
        del self.tree[p]
        self._touch(p)

    def _do_mkdir(self, p):
        if p in self.tree:
            raise _err(E.EEXIST, p)
        self._parent_ok(p)
        self.tree[p] = self._new(None)
        self._touch(p)

    def _do_listdir(self, p):
        if p not in self.tree:
            raise _err(E.ENOENT, p)
        if not self._is_dir(p):
            raise _err(E.ENOTDIR, p)
        pre = p.rstrip("/") + "/"
        return sorted({k[len(pre):].split("/")[0] for k in self.tree if k.startswith(pre)})

    def _do_open_w(self, p, excl=False):
        self._parent_ok(p)
        if p in self.tree:
            if self._is_dir(p):
                raise _err(E.EISDIR, p)
            if excl:
                raise _err(E.EEXIST, p)
            i = self.tree[p]
            self.ino[i] = b""
            self.mtime[i] = self.clock
            self.clock += 1
        else:
            i = self.tree[p] = self._new(b"")
            self._touch(p)
        return i

    def _do_write(self, handle, data):
        self.ino[handle] = self.ino[handle] + bytes(data)
        self.mtime[handle] = self.clock
        self.clock += 1

    def _do_open_r(self, p):
        if p not in self.tree:
            raise _err(E.ENOENT, p)
        if self._is_dir(p):
            raise _err(E.EISDIR, p)
        return self.tree[p]

    def _do_read(self, handle):
        return self.ino[handle]

    def _do_close(self, handle):
        pass

    def _do_stat(self, p):
        if p not in self.tree:
            raise _err(E.ENOENT, p)
        i = self.tree[p]
        c = self.ino[i]
        return types.SimpleNamespace(st_size=0 if c is None else len(c), st_mtime_ns=self.mtime[i], st_mtime=float(self.mtime[i]), st_ino=i,
                                     st_mode=(0o40755 if c is None else 0o100644), st_uid=0, st_gid=0)

    def _q_isfile(self, p):
        return self._is_file(p)

    def _q_isdir(self, p):
        return self._is_dir(p)

    def _q_exists(self, p):
        return p in self.tree

    # ------------------------------------------------------------------ stepped API (what the fake modules call)
    def replace(self, a, b):
        a, b = self._norm(a), self._norm(b)
        self.tick("replace", a, b)
        self._do_replace(a, b)

    rename = replace

    def remove(self, p):
        p = self._norm(p)
        self.tick("remove", p)
        self._do_remove(p)

    unlink = remove

    def rmdir(self, p):
        p = self._norm(p)
        self.tick("rmdir", p)
        self._do_rmdir(p)

    def mkdir(self, p, mode=0o777):
        p = self._norm(p)
        self.tick("mkdir", p)
        self._do_mkdir(p)

    def makedirs(self, p, mode=0o777, exist_ok=False):
        p = self._norm(p)
        parts = [x for x in p.split("/") if x]
        cur = ""
        for n, x in enumerate(parts):
            cur += "/" + x
            last = n == len(parts) - 1
            # like os.makedirs: intermediate components are created if missing (EEXIST from a racing creator is tolerated),
            # the leaf raises EEXIST unless exist_ok and it is a directory
            if not last:
                if not self.isdir(cur):
                    try:
                        self.mkdir(cur)
                    except FileExistsError:
                        pass
            else:
                try:
                    self.mkdir(cur)
                except OSError:
                    if not exist_ok or not self.isdir(cur):
                        raise

    def listdir(self, p="."):
        p = self._norm(p)
        self.tick("listdir", p)
        names = self._do_listdir(p)
        return names[::-1] if self.list_reverse else names

    def isfile(self, p):
        p = self._norm(p)
        if self.tick("isfile", p) is not None:
            return False
        return self._q_isfile(p)

    def isdir(self, p):
        p = self._norm(p)
        if self.tick("isdir", p) is not None:
            return False
        return self._q_isdir(p)

    def exists(self, p):
        p = self._norm(p)
        if self.tick("exists", p) is not None:
            return False
        return self._q_exists(p)

    def islink(self, p):
        p = self._norm(p)
        self.tick("islink", p)
        return False

    def stat(self, p):
        p = self._norm(p)
        self.tick("stat", p)
        return self._do_stat(p)

    def getmtime(self, p):
        return self.stat(p).st_mtime

    def open(self, p, mode="r", *a, **k):
        p = self._norm(p)
        if "b" not in mode:
            # text mode: the same numbered steps on the binary object, UTF-8 (every write() call of the text layer is one write step,
            # as for an unbuffered stream: the finest granularity a crash can have)
            if "+" in mode or "a" in mode:
                raise NotImplementedError(mode)
            return _Text(self.open(p, mode.replace("t", "") + "b", *a, **k))
        if "r" in mode and "+" not in mode:
            self.tick("open_r", p)
            h = self._do_open_r(p)
            return _Reader(self, p, h)
        if "w" in mode or "x" in mode:
            self.tick("open_w", p)
            h = self._do_open_w(p, excl="x" in mode)
            buffering = k.get("buffering", a[0] if a else -1)
            return _Writer(self, p, h, unbuffered=(buffering == 0))
        raise NotImplementedError(mode)

    # composite operations expanded into their steps ------------------------------------------------
    def rmtree(self, p, ignore_errors=False, onerror=None, *, onexc=None):
        """shutil.rmtree: errors are ignored, handed to the handler (onexc(func, path, exc) / onerror(func, path, exc_info); the walk goes
        on when the handler returns), or raised"""
        import sys
        p = self._norm(p)

        def failed(func, path, exc):
            if ignore_errors:
                return
            if onexc is not None:
                onexc(func, path, exc)
            elif onerror is not None:
                onerror(func, path, (type(exc), exc, exc.__traceback__))
            else:
                raise exc
        try:
            names = self.listdir(p)
        except OSError as e:
            failed(self.listdir, p, e)
            names = []
        for n in names:
            c = p + "/" + n
            if self._q_isdir(c):
                self.rmtree(c, ignore_errors=ignore_errors, onerror=onerror, onexc=onexc)
            else:
                try:
                    self.remove(c)
                except OSError as e:
                    failed(self.remove, c, e)
        try:
            self.rmdir(p)
        except OSError as e:
            failed(self.rmdir, p, e)

    def copyfile(self, src, dst):
        with self.open(src, "rb") as f:
            data = f.read()
        with self.open(dst, "wb") as g:
            g.write(data)
        return dst

    def copy(self, src, dst):
        src, dst = self._norm(src), self._norm(dst)
        if self._q_isdir(dst):
            dst = dst + "/" + posixpath.basename(src)
        return self.copyfile(src, dst)

    copy2 = copy

    def copymode(self, src, dst):
        pass

    def copytree(self, src, dst, symlinks=False, ignore=None, copy_function=None, ignore_dangling_symlinks=False, dirs_exist_ok=False):
        """shutil.copytree semantics: the destination directory must not exist; errors of individual entries are collected,
        copying continues with the remaining entries, and shutil.Error is raised at the end"""
        src, dst = self._norm(src), self._norm(dst)
        names = self.listdir(src)
        try:
            self.mkdir(dst)
        except FileExistsError:
            if not dirs_exist_ok:
                raise
        except FileNotFoundError:
            self.makedirs(dst, exist_ok=dirs_exist_ok)
        cf = copy_function or self.copy2
        errors = []
        for n in names:
            s, d = src + "/" + n, dst + "/" + n
            try:
                if self._q_isdir(s):
                    self.copytree(s, d, copy_function=copy_function, dirs_exist_ok=dirs_exist_ok)
                else:
                    cf(s, d)
            except _shutil.Error as err:
                errors.extend(err.args[0])
            except OSError as why:
                errors.append((s, d, str(why)))
        if errors:
            raise _shutil.Error(errors)
        return dst

    def move(self, src, dst):
        """shutil.move: a destination that is an existing directory RECEIVES the source (dst/basename(src)); rename first, copy + delete
        when the rename fails"""
        src, dst = self._norm(src), self._norm(dst)
        real_dst = dst
        if self.isdir(dst):
            real_dst = dst + "/" + posixpath.basename(src.rstrip("/"))
            if self.exists(real_dst):
                raise _shutil.Error("Destination path '%s' already exists" % real_dst)
        try:
            self.replace(src, real_dst)
        except OSError:
            if self._q_isdir(src):
                self.copytree(src, real_dst)
                self.rmtree(src)
            else:
                self.copy(src, real_dst)
                self.remove(src)
        return real_dst

    def walk(self, top):
        top = self._norm(top)
        names = self.listdir(top)
        dirs = [n for n in names if self._q_isdir(top + "/" + n)]
        files = [n for n in names if n not in dirs]
        yield top, dirs, files
        for d in dirs:
            yield from self.walk(top + "/" + d)

    def uuid4(self):
        if self.uuid_hook is not None:
            return self.uuid_hook()
        self.uuid_n += 1
        return "u%04d" % self.uuid_n

    # gzip over the stepped file objects -----------------------------------------------------------
    def gzip_open(self, p, mode="rb", *a, **k):
        f = self.open(p, mode if "b" in mode else mode + "b")
        if "r" in mode:
            data = f.read()
            f.close()
            return _GzReader(data)
        return _GzWriter(f)


class _Reader:
    def __init__(self, fs, p, h):
        self.fs, self.p, self.h, self.closed = fs, p, h, False

    def read(self, n=-1):
        self.fs.tick("read", self.p)
        data = self.fs._do_read(self.h)
        if self.fs.read_monitor is not None:
            self.fs.read_monitor(self.p, data)
        return data

    def close(self):
        if not self.closed:
            self.closed = True
            self.fs._do_close(self.h)

    def __enter__(self):
        return self

    def __exit__(self, *a):
        self.close()
        return False


class _Text:
    """text-mode view of a _Reader / _Writer"""

    def __init__(self, inner):
        self.inner = inner

    def read(self, n=-1):
        return self.inner.read().decode("utf-8")

    def write(self, s):
        self.inner.write(s.encode("utf-8"))
        return len(s)

    def flush(self):
        pass

    def close(self):
        self.inner.close()

    def __iter__(self):
        return iter(self.read().splitlines(True))

    def __enter__(self):
        self.inner.__enter__()
        return self

    def __exit__(self, *a):
        return self.inner.__exit__(*a)


class _Writer:
    def __init__(self, fs, p, h, unbuffered=False):
        self.fs, self.p, self.h, self.closed, self.unbuffered = fs, p, h, False, unbuffered

    def write(self, data):
        data = bytes(data)
        act = self.fs.tick("write", self.p, len(data))
        if act is not None and act[0] == "torn":
            n = act[1]
            if n == -1:
                n = len(data) - 1      # all but the last byte
            elif n == -2:
                n = len(data) // 2     # half
            n = max(0, min(len(data), n))
            self.fs._do_write(self.h, data[:n])
            self.fs.dead = True
            raise Crash("torn", self.p, n)
        if act is not None and act[0] == "short":
            n = max(0, min(len(data) - 1, act[1] if act[1] >= 0 else len(data) // 2))
            self.fs._do_write(self.h, data[:n])
            if self.unbuffered:
                return n        # a raw (unbuffered) write reports the short count and raises nothing
            # a buffered writer retries the remainder, and THAT write fails
            raise _err(E.ENOSPC, self.p)
        self.fs._do_write(self.h, data)
        return len(data)

    def flush(self):
        pass

    def close(self):
        if not self.closed:
            self.closed = True
            self.fs.tick("close", self.p)
            self.fs._do_close(self.h)

    def __enter__(self):
        return self

    def __exit__(self, *a):
        # a crash propagating through the with-block must not perform further steps
        if a and a[0] is not None and issubclass(a[0], (Crash, Abort)):
            self.closed = True
            return False
        self.close()
        return False


class _GzReader:
    def __init__(self, data):
        self.data = data

    def read(self):
        try:
            return _gzip.decompress(self.data)
        except (EOFError, _gzip.BadGzipFile, OSError) as e:
            raise e

    def close(self):
        pass

    def __enter__(self):
        return self

    def __exit__(self, *a):
        return False


class _GzWriter:
    """gzip stream written in three chunks (header+data / nothing / trailer are produced by gzip.compress) -> two write steps,
    so that a crash / torn write can land inside the compressed stream"""

    def __init__(self, f):
        self.f = f
        self.buf = b""

    def write(self, b):
        self.buf += bytes(b)
        return len(b)

    def close(self):
        blob = _gzip.compress(self.buf, mtime=0)
        half = len(blob) // 2
        self.f.write(blob[:half])
        self.f.write(blob[half:])
        self.f.close()

    def __enter__(self):
        return self

    def __exit__(self, *a):
        if a and a[0] is not None:
            if issubclass(a[0], (Crash, Abort)):
                self.f.closed = True
                return False
            self.f.close()
            return False
        self.close()
        return False


class RealFS(MemFS):
    """Same numbered steps, performed on a real directory tree rooted at `root` (validation / replay back end)."""
    kind = "real"

    def __init__(self, root):
        super().__init__()
        self.root = root
        _shutil.rmtree(root, ignore_errors=True)
        _os.makedirs(root)
        self.handles = {}

    def r(self, p):
        return self.root + p if p != "/" else self.root

    def _strip(self, e):
        return e

    def put(self, p, content):
        p = self._norm(p)
        _os.makedirs(posixpath.dirname(self.r(p)), exist_ok=True)
        with open(self.r(p), "wb") as f:
            f.write(bytes(content))

    def put_dir(self, p):
        _os.makedirs(self.r(self._norm(p)), exist_ok=True)

    def get(self, p):
        try:
            with open(self.r(self._norm(p)), "rb") as f:
                return f.read()
        except OSError:
            return None

    def snapshot(self, root="/"):
        base = self.r(self._norm(root))
        out = {}
        for dp, dn, fn in _os.walk(base):
            for d in dn:
                out[_os.path.relpath(_os.path.join(dp, d), base)] = None
            for f in fn:
                with open(_os.path.join(dp, f), "rb") as fh:
                    out[_os.path.relpath(_os.path.join(dp, f), base)] = fh.read()
        return out

    def delete_raw(self, p):
        q = self.r(self._norm(p))
        if _os.path.isdir(q):
            _shutil.rmtree(q)
        elif _os.path.exists(q):
            _os.remove(q)

    def rename_raw(self, a, b):
        _os.rename(self.r(self._norm(a)), self.r(self._norm(b)))

    def _x(self, fn, *paths):
        try:
            return fn(*[self.r(p) for p in paths])
        except OSError as e:
            raise type(e)(e.errno, e.strerror, *[p for p in paths][:1]) from None

    def _do_replace(self, a, b):
        self._x(_os.replace, a, b)

    def _do_remove(self, p):
        self._x(_os.remove, p)

    def _do_rmdir(self, p):
        self._x(_os.rmdir, p)

    def _do_mkdir(self, p):
        self._x(_os.mkdir, p)

    def _do_listdir(self, p):
        return sorted(self._x(_os.listdir, p))

    def _do_open_w(self, p, excl=False):
        f = self._x(lambda q: open(q, "xb" if excl else "wb", buffering=0), p)
        self.handles[id(f)] = f
        return f

    def _do_write(self, handle, data):
        handle.write(bytes(data))

    def _do_open_r(self, p):
        return self._x(lambda q: open(q, "rb"), p)

    def _do_read(self, handle):
        return handle.read()

    def _do_close(self, handle):
        handle.close()

    def _do_stat(self, p):
        return self._x(_os.stat, p)

    def _q_isfile(self, p):
        return _os.path.isfile(self.r(p))

    def _q_isdir(self, p):
        return _os.path.isdir(self.r(p))

    def _q_exists(self, p):
        return _os.path.exists(self.r(p))

    def cleanup(self):
        _shutil.rmtree(self.root, ignore_errors=True)


class PassthroughFS(RealFS):
    """RealFS without a private root: virtual path == real absolute path. Used to put numbered steps / crash injection under a SINGLE
    module (e.g. the JSON document back end) while everything else uses the real os module directly."""
    kind = "passthrough"

    def __init__(self):
        MemFS.__init__(self)
        self.root = ""
        self.handles = {}

    def r(self, p):
        return p

    def cleanup(self):
        pass


# ---------------------------------------------------------------------------------------------- fake modules
def fake_os(fs):
    ns = types.SimpleNamespace()
    ns.sep, ns.pardir, ns.curdir, ns.linesep = "/", "..", ".", "\n"
    for n in ("replace", "rename", "remove", "unlink", "rmdir", "mkdir", "makedirs", "listdir", "stat", "walk"):
        setattr(ns, n, getattr(fs, n))
    ns.getcwd = lambda: fs.cwd
    # permission queries / changes: everything in the model is readable and writable by the (single) user
    ns.F_OK, ns.R_OK, ns.W_OK, ns.X_OK = _os.F_OK, _os.R_OK, _os.W_OK, _os.X_OK
    ns.access = lambda p, mode=0, **k: fs._q_exists(p) if hasattr(fs, "_q_exists") else True
    ns.chmod = lambda p, mode, **k: None
    ns.fspath = _os.fspath
    ns.strerror = _os.strerror
    ns.error = OSError

    def chdir(p):
        fs.cwd = fs._norm(p)
    ns.chdir = chdir
    ns.path = types.SimpleNamespace(
        join=posixpath.join, split=posixpath.split, dirname=posixpath.dirname, basename=posixpath.basename, splitext=posixpath.splitext,
        normpath=posixpath.normpath, sep="/", isabs=posixpath.isabs, commonprefix=posixpath.commonprefix,
        isfile=fs.isfile, isdir=fs.isdir, exists=fs.exists, islink=fs.islink, getmtime=fs.getmtime,
        abspath=fs._norm, realpath=fs._norm, expanduser=lambda p: p,
        relpath=lambda p, start=None: posixpath.relpath(fs._norm(p), fs._norm(start) if start is not None else fs.cwd))
    return ns


def fake_shutil(fs):
    return types.SimpleNamespace(rmtree=fs.rmtree, copytree=fs.copytree, copy=fs.copy, copy2=fs.copy2, copyfile=fs.copyfile, copymode=fs.copymode, move=fs.move)


class FakePool:
    """multiprocessing.pool.ThreadPool stand-in: synchronous, in order"""

    def __init__(self, *a, **k):
        pass

    def __enter__(self):
        return self

    def __exit__(self, *a):
        return False

    def map(self, fn, it):
        return [fn(x) for x in it]

    def imap(self, fn, it):
        return (fn(x) for x in it)


_SAVED = {}


def install(fs):
    """Substitute the environment of the signac / synced_collections modules that touch the file system."""
    import signac.job as J, signac._utility as U, signac.project as P
    import synced_collections.backends.collection_json as CJ
    import synced_collections.buffers.file_buffered_collection as FB
    fo, fsh = fake_os(fs), fake_shutil(fs)
    mods = {J: dict(os=fo, shutil=fsh, open=fs.open), U: dict(os=fo, open=fs.open), P: dict(os=fo, shutil=fsh, open=fs.open, gzip=types.SimpleNamespace(open=fs.gzip_open),
            time=types.SimpleNamespace(time=lambda: 0.0), ThreadPool=FakePool),
            CJ: dict(os=fo, open=fs.open, uuid=types.SimpleNamespace(uuid4=fs.uuid4)), FB: dict(os=fo)}
    for m, d in mods.items():
        for k, v in d.items():
            key = (m.__name__, k)
            if key not in _SAVED:
                _SAVED[key] = (m, m.__dict__.get(k, _MISSING))
            setattr(m, k, v)
    return fo


_MISSING = object()


def uninstall():
    for (mn, k), (m, v) in list(_SAVED.items()):
        if v is _MISSING:
            try:
                delattr(m, k)
            except AttributeError:
                pass
        else:
            setattr(m, k, v)
    _SAVED.clear()


def mkproject_nofs(path="/p"):
    """like mkproject but without touching the file system (used by concurrent actors)"""
    import threading
    import signac.project as P
    pr = P.Project.__new__(P.Project)
    pr._config = {"schema_version": "2"}
    pr._lock = threading.RLock()
    pr._document = None
    pr._stores = None
    pr._path = path
    pr._workspace = path + "/workspace"
    pr._sp_cache = {}
    pr._sp_cache_read = False
    pr._sp_cache_misses = 0
    pr._sp_cache_warned = False
    pr._sp_cache_miss_warning_threshold = 500
    return pr


def mkproject(fs, path="/p", fresh_session=True):
    """A Project object on `fs` built without Project.__init__ (which needs configobj to read a real config file):
    sets exactly the attributes __init__ sets."""
    import threading
    import signac.project as P
    fs.put_dir(path + "/workspace")
    if fs.get(path + "/.signac/config") is None:
        fs.put(path + "/.signac/config", b"schema_version = 2\n")
    pr = P.Project.__new__(P.Project)
    pr._config = {"schema_version": "2"}
    pr._lock = threading.RLock()
    pr._document = None
    pr._stores = None
    pr._path = path
    pr._workspace = path + "/workspace"
    pr._sp_cache = {}
    pr._sp_cache_read = False
    pr._sp_cache_misses = 0
    pr._sp_cache_warned = False
    pr._sp_cache_miss_warning_threshold = 500
    return pr
