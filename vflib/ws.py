"""Workspace simulator for the E2 harnesses: drives the REAL signac API on a MemFS (or RealFS) next to a plain-dict model.

Model: per project  {canonical-sp-key: {"sp": dict, "doc": dict|None (None = no document file), "files": {relpath: bytes}}}.
A handle denotes a state point (its current one); shallow copies of a handle share it.
"""
import copy, json, os, pickle
from vflib import memfs, refs
from vflib.hutil import nt

SP_FILE, DOC_FILE = "signac_statepoint.json", "signac_job_document.json"
CORRUPT = "<corrupt>"


def key(sp):
    return refs.canon(sp)


def new_fs():
    """MemFS, or RealFS under VF_BACKEND=real (replay on the real file system)"""
    if os.environ.get("VF_BACKEND") == "real":
        return memfs.RealFS("/dev/shm/vf_real_%d" % os.getpid())
    return memfs.MemFS()


def observe(fs, path="/p"):
    """What a fresh session sees: {id: {sp, doc, files}} plus listing facts. Uses only the public API and raw file reads."""
    from signac.errors import JobsCorruptedError
    pr = memfs.mkproject(fs, path)
    ids = sorted(pr._find_job_ids())
    out = {}
    for i in ids:
        job = pr.open_job(id=i)
        try:
            sp = job.statepoint()
        except JobsCorruptedError:
            sp = CORRUPT
        raw = fs.get(job.path + "/" + DOC_FILE)
        doc = json.loads(raw) if raw is not None else None
        files = {k: v for k, v in fs.snapshot(job.path).items() if k not in (SP_FILE, DOC_FILE)}
        out[i] = {"sp": sp, "doc": doc, "files": files}
    facts = {"len": len(pr), "iter": sorted(j.id for j in pr), "contains": all(pr.open_job(id=i) in pr for i in ids)}
    try:
        pr.check()
        facts["check"] = []
    except JobsCorruptedError as e:
        facts["check"] = sorted(e.job_ids)
    return out, facts


def stray_files(fs, path="/p"):
    """temporary / backup files left anywhere below the project"""
    return sorted(k for k in fs.snapshot(path) if k.split("/")[-1].endswith("~") or k.split("/")[-1].startswith("._"))


class Model:
    def __init__(self):
        self.projects = {}

    def ws(self, path):
        return self.projects.setdefault(path, {})

    def expect(self, path):
        return {refs.canon_id(e["sp"]): {"sp": e["sp"], "doc": e["doc"], "files": dict(e["files"])} for e in self.ws(path).values()}


class Handle:
    """a group of shallow copies sharing one state point"""

    def __init__(self, job, sp, path, knows=True):
        self.jobs = [job]
        self.sp = copy.deepcopy(sp)
        self.path = path
        self.knows = knows      # False: opened by id and the state point has not been loaded yet


class Sim:
    def __init__(self, fs=None, paths=("/p",)):
        self.fs = fs or new_fs()
        memfs.install(self.fs)
        self.model = Model()
        self.pr = {}
        for p in paths:
            self.pr[p] = memfs.mkproject(self.fs, p)
            self.model.ws(p)
        self.handles = {}
        self.errors = []

    # -- set-up helpers (native API, also applied to the model)
    def add_job(self, path, sp, doc=None, files=None):
        job = self.pr[path].open_job(sp).init()
        e = self.model.ws(path).setdefault(key(sp), {"sp": copy.deepcopy(sp), "doc": None, "files": {}})
        if doc is not None:
            job.document.reset(doc)
            e["doc"] = copy.deepcopy(doc)
        for rel, data in (files or {}).items():
            self.fs.put(job.path + "/" + rel, data)
            e["files"][rel] = data
        return job

    def open(self, slot, path, sp, by_id=False):
        pr = self.pr[path]
        job = pr.open_job(id=refs.canon_id(sp)) if by_id else pr.open_job(sp)
        self.handles[slot] = Handle(job, sp, path, knows=not by_id or job._cached_statepoint is not None)
        return job

    def restart(self, path):
        """a new session: fresh Project object, all handles dropped"""
        self.pr[path] = memfs.mkproject(self.fs, path)
        for s in [s for s, h in self.handles.items() if h.path == path]:
            del self.handles[s]

    # -- model-side helpers
    def _entry(self, h, create=False):
        ws = self.model.ws(h.path)
        k = key(h.sp)
        if k not in ws and create:
            ws[k] = {"sp": copy.deepcopy(h.sp), "doc": None, "files": {}}
        return ws.get(k)

    def _rekey(self, h, new_sp):
        """model of a state point change; returns expected exception name or None"""
        ws = self.model.ws(h.path)
        old, new = key(h.sp), key(new_sp)
        if old == new:
            h.sp = copy.deepcopy(new_sp)
            return None
        if old in ws:
            if new in ws:
                return "DestinationExistsError"
            ws[new] = ws.pop(old)
            ws[new]["sp"] = copy.deepcopy(new_sp)
        h.sp = copy.deepcopy(new_sp)
        return None

    # -- operations: each returns (expected_exception_name|None, thunk on the real job)
    def apply(self, slot, op, *args):
        """Perform `op` through every aspect: real API + model. Returns True iff the real outcome class equals the model's."""
        h = self.handles[slot]
        job = h.jobs[-1] if op != "copy" else h.jobs[0]
        exp = None
        fs = self.fs
        if not h.knows and key(h.sp) not in self.model.ws(h.path) and op not in ("remove", "clear", "update_cache"):
            # a handle opened by id that never loaded its state point, and whose job is gone: it cannot know what to (re)create
            got = None
            try:
                if op == "init":
                    job.init()
                elif op.startswith("doc_"):
                    job.document
                elif op == "put":
                    job.init()
                elif op == "reset":
                    job.reset()
                elif op == "copy":
                    copy.copy(job)
                else:
                    job.statepoint()
            except memfs.Crash:
                raise
            except Exception as ex:  # noqa
                got = type(ex).__name__
            ok = got in ("JobsCorruptedError", "KeyError")
            if not ok:
                self.errors.append((op, args, "handle without state point on a vanished job: expected JobsCorruptedError/KeyError, got", got))
            return ok
        if op == "init":
            self._entry(h, create=True)
            act = lambda: job.init()
        elif op == "doc_set":
            k, v = args
            e = self._entry(h, create=True)
            e["doc"] = dict(e["doc"] or {})
            e["doc"][k] = copy.deepcopy(v)
            act = lambda: job.document.__setitem__(k, v)
        elif op == "doc_del":
            (k,) = args
            e = self._entry(h, create=True)
            if e["doc"] is None or k not in e["doc"]:
                exp = "KeyError"
            else:
                del e["doc"][k]
            act = lambda: job.document.__delitem__(k)
        elif op == "doc_reset":
            (d,) = args
            e = self._entry(h, create=True)
            e["doc"] = copy.deepcopy(d)
            act = lambda: setattr(job, "document", d)
        elif op == "put":
            rel, data = args
            e = self._entry(h, create=True)
            e["files"][rel] = data

            def act():
                job.init()
                fs.put(job.fn(rel), data)
        elif op == "clear":
            e = self._entry(h)
            if e is not None:
                e["files"] = {}
                e["doc"] = {}
            act = lambda: job.clear()
        elif op == "reset":
            e = self._entry(h)
            if e is not None:
                e["files"], e["doc"] = {}, {}
            else:
                self._entry(h, create=True)
            act = lambda: job.reset()
        elif op == "remove":
            self.model.ws(h.path).pop(key(h.sp), None)
            act = lambda: job.remove()
        elif op == "sp_set":
            k, v = args
            new = copy.deepcopy(h.sp)
            new[k] = v
            exp = self._rekey(h, new)
            act = lambda: job.statepoint.__setitem__(k, v)
        elif op == "sp_path_set":
            path, v = args
            new = copy.deepcopy(h.sp)
            cur = new
            for q in path[:-1]:
                cur = cur[q]
            cur[path[-1]] = v
            exp = self._rekey(h, new)

            def act():
                d = job.statepoint
                for q in path[:-1]:
                    d = d[q]
                d[path[-1]] = v
        elif op == "sp_attr_set":
            k, v = args
            new = copy.deepcopy(h.sp)
            new[k] = v
            exp = self._rekey(h, new)
            act = lambda: setattr(job.sp, k, v)
        elif op == "sp_del":
            (k,) = args
            if k not in h.sp:
                exp = "KeyError"
            else:
                new = copy.deepcopy(h.sp)
                del new[k]
                exp = self._rekey(h, new)
            act = lambda: job.statepoint.__delitem__(k)
        elif op == "sp_assign":
            (new,) = args
            exp = self._rekey(h, new)
            act = lambda: setattr(job, "statepoint", copy.deepcopy(new))
        elif op == "sp_assign_bad":
            # an assignment that must be refused as a whole (a valid key followed by an invalid one / a non-string key): no effect at all
            new, exp = args
            act = lambda: setattr(job, "statepoint", copy.deepcopy(new))
        elif op == "sp_update":
            upd, overwrite = args
            if not overwrite and any(k in h.sp and h.sp[k] != v for k, v in upd.items()):
                exp = "KeyError"
            else:
                new = copy.deepcopy(h.sp)
                new.update(copy.deepcopy(upd))
                exp = self._rekey(h, new)
            act = lambda: job.update_statepoint(copy.deepcopy(upd), overwrite=overwrite)
        elif op == "move":
            (dst,) = args
            src_ws, dst_ws = self.model.ws(h.path), self.model.ws(dst)
            k = key(h.sp)
            if k not in src_ws:
                exp = "RuntimeError"
            elif k in dst_ws:
                exp = "DestinationExistsError"
            else:
                dst_ws[k] = src_ws.pop(k)
                h.path = dst     # every live shallow copy of the handle follows the move (C04: "every live copy of the handle follows")
            act = lambda: job.move(self.pr[dst])
        elif op == "clone":
            (dst,) = args
            src_ws, dst_ws = self.model.ws(h.path), self.model.ws(dst)
            k = key(h.sp)
            if k not in src_ws:
                exp = "ValueError"
            elif k in dst_ws:
                exp = "DestinationExistsError"
            else:
                dst_ws[k] = copy.deepcopy(src_ws[k])
            act = lambda: self.pr[dst].clone(job)
        elif op == "copy":
            kind = args[0]

            def act():
                if kind == "copy":
                    h.jobs.append(copy.copy(job))
                elif kind == "deepcopy":
                    self.handles[args[1]] = Handle(copy.deepcopy(job), h.sp, h.path)
                else:
                    self.handles[args[1]] = Handle(pickle.loads(pickle.dumps(job)), h.sp, h.path)
        elif op == "update_cache":
            act = lambda: self.pr[h.path].update_cache()
        else:
            raise ValueError(op)
        got = None
        try:
            act()
        except memfs.Crash:
            raise
        except Exception as ex:  # noqa
            got = type(ex).__name__
        ok = got == exp
        if not ok:
            self.errors.append((op, args, "expected", exp, "got", got))
        return ok

    # -- comparison
    def agree(self, path, strict_doc_absent=False):
        obs, facts = observe(self.fs, path)
        exp = self.model.expect(path)
        problems = []
        if set(obs) != set(exp):
            problems.append(("ids", sorted(obs), sorted(exp)))
        for i in set(obs) & set(exp):
            if not (obs[i]["sp"] != CORRUPT and refs.same_json(obs[i]["sp"], exp[i]["sp"])):
                problems.append(("sp", i, obs[i]["sp"], exp[i]["sp"]))
            od, ed = obs[i]["doc"], exp[i]["doc"]
            if (od or {}) != (ed or {}) or (strict_doc_absent and (od is None) != (ed is None)):
                problems.append(("doc", i, od, ed))
            if obs[i]["files"] != {k: v for k, v in exp[i]["files"].items()} and {k: v for k, v in obs[i]["files"].items() if v is not None} != exp[i]["files"]:
                problems.append(("files", i, obs[i]["files"], exp[i]["files"]))
        if facts["check"]:
            problems.append(("check", facts["check"]))
        if facts["len"] != len(obs) or facts["iter"] != sorted(obs) or not facts["contains"]:
            problems.append(("listing", facts))
        st = stray_files(self.fs, path)
        if st:
            problems.append(("stray", st))
        # every directory name is the hash of its state point file
        for i in obs:
            raw = self.fs.get(f"{path}/workspace/{i}/{SP_FILE}")
            try:
                if raw is None or refs.canon_id(json.loads(raw)) != i:
                    problems.append(("dirname", i))
            except ValueError:
                problems.append(("dirname", i))
        self.errors += problems
        return not problems

    def session_agree(self, path):
        """the RUNNING session (its in-memory state point cache) answers queries like the model: every model job is found by its own state point"""
        problems = []
        pr = self.pr[path]
        exp = self.model.expect(path)
        try:
            ids = sorted(j.id for j in pr.find_jobs())
            if ids != sorted(exp):
                problems.append(("session iteration", ids, sorted(exp)))
            for i, e in exp.items():
                flt = {k: v for k, v in e["sp"].items() if not isinstance(v, (dict, list))}
                if flt:
                    got = sorted(j.id for j in pr.find_jobs(flt))
                    want = sorted(j for j, ee in exp.items() if all(ee["sp"].get(k, "<missing>") == v and type(ee["sp"].get(k)) is type(v) or ee["sp"].get(k, "<missing>") == v for k, v in flt.items()))
                    if i not in got:
                        problems.append(("session find_jobs misses a job", i, flt, got))
                j = pr.open_job(id=i)
                if not refs.same_json(j.statepoint(), e["sp"]) or not refs.same_json(dict(j.cached_statepoint), e["sp"]):
                    problems.append(("session open_job(id) state point", i, j.statepoint()))
        except Exception as ex:  # noqa
            problems.append(("session query raised", type(ex).__name__, str(ex)[:80]))
        self.errors += problems
        return not problems

    def handles_follow(self, slot):
        """every live shallow copy of the handle describes the handle's current state point"""
        h = self.handles[slot]
        want_id = refs.canon_id(h.sp)
        problems = []
        exists = key(h.sp) in self.model.ws(h.path)
        for n, j in enumerate(h.jobs):
            if not exists and not h.knows:
                # a handle opened by id whose job has meanwhile disappeared cannot know its state point: only the id is checked
                if j.id != want_id:
                    problems.append(("handle.id", n, j.id, want_id))
                continue
            h.knows = True
            if j.id != want_id:
                problems.append(("handle.id", n, j.id, want_id))
            if j.path != f"{h.path}/workspace/{want_id}":
                problems.append(("handle.path", n, j.path))
            if not refs.same_json(j.statepoint(), h.sp):
                problems.append(("handle.statepoint", n, j.statepoint(), h.sp))
            if not refs.same_json(dict(j.cached_statepoint), h.sp):
                problems.append(("handle.cached_statepoint", n, dict(j.cached_statepoint), h.sp))
            if j.project is not self.pr[h.path] and j.project.path != h.path:
                problems.append(("handle.project", n))
        self.errors += problems
        return not problems

    def close(self):
        memfs.uninstall()
        if isinstance(self.fs, memfs.RealFS):
            self.fs.cleanup()


def e2_extra(tier_):
    """extra_checks body shared by the E2 harness modules: validate the MemFS model against the real file system on this run"""
    from vflib import selftest
    n, bad = selftest.main(quick=(tier_ == "quick"), verbose=False)
    out = {"traces_validated": n, "errors": [], "info": {"memfs_vs_realfs_scenario_pairs": n, "disagreements": len(bad)}}
    if bad:
        out["errors"].append(f"MemFS model disagrees with the real file system on {len(bad)} of {n} scenario pairs, e.g. {bad[0]}")
    return out
