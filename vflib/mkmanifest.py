"""Regenerates /verif/MANIFEST.json from the table below (python3 vflib/mkmanifest.py)."""
import json, os

HERE = os.path.dirname(os.path.dirname(os.path.abspath(__file__)))
E1 = "CrossHair symbolic execution of the real signac functions (z3 decides every path; bounded)"
CHECKS = {
    "C01": dict(tech="SMT-backed symbolic execution (CrossHair+z3) of calc_id / Job / open_job with md5 as injective uninterpreted hash",
                text="Bounded proof: for every leaf class (None/bool/int |x|<=1000 by sign and digit count, strings/floats from fixed tables), key order, container spelling and shape template, "
                     "CrossHair reports 'Confirmed over all paths' for id == md5(canonical JSON), order/spelling independence, type-exact injectivity, no aliasing of the caller's mapping, JSON round-trip stability.",
                note="Trusted: CrossHair's int/str/json models (every counterexample is replayed on CPython; golden ids and table ids re-checked with real md5 + C encoder), MD5 collision freeness. Outside: ints beyond 1000, arbitrary Unicode, float formatting.",
                ref="DESIGN.md §4 C01"),
    "C06": dict(tech="SMT-backed symbolic execution (CrossHair+z3) of Project._find_job_ids / _SearchIndexer / filterparse against a per-job reference evaluator",
                text="Bounded proof: for 2-job corpora over a 10-value typed leaf domain (bool/int/int-valued float/float/str/None, solver-enumerated by index; ints fully symbolic for order operators), four value shapes, "
                     "both namespaces and all key/operator spellings, every atomic operator template and ten $and/$or/$not templates (depth <= 3) return exactly the jobs the per-job oracle accepts; "
                     "independence of other jobs and set-algebra laws are asserted directly. Every harness must come back 'Confirmed over all paths'.",
                note="Trusted: CrossHair path enumeration, the oracle vflib/refs.match (Python == semantics, operators need the key present). Corpus injected at Project._build_index/_job_dirs. Outside: $where, arbitrary regexes, symbolic floats, >2 jobs (3 in thorough).",
                ref="DESIGN.md §4 C06"),
    "C14": dict(tech="SMT-backed symbolic execution (CrossHair+z3) of DocSync.ByKey/update against a reference merge; real-file-system sync harnesses with symbolic configuration (conflicting files x strategies, document conflicts x key strategies, rollback)",
                text="Bounded proof: for every presence/equality/mapping state of 4 document keys at depths 1-3, every verdict table of the key strategy over full dotted keys and strategy kinds None/predicate/regex, "
                     "the real ByKey merge equals the reference merge (overwritten iff differing and selected; dst-only keys kept; DocumentSyncConflict names exactly the conflicting full keys; strategy only asked about full keys).",
                note="Trusted: CrossHair path enumeration; the reference merge in harness/C14.py. Outside: src mapping vs dst scalar under one key, FileSync.Ask.",
                ref="DESIGN.md §4 C14"),
    "C18": dict(tech="SMT-backed symbolic execution (CrossHair+z3) of Project.detect_schema / _build_job_statepoint_index / diff_jobs against independent oracles",
                text="Bounded proof: for all 2-job (quick) / 3-job (thorough) corpora over 12 value shapes under key a (missing, None, bool, int, equal float, str, list, empty and nested mappings) x key b, every subset selection and exclude_const, "
                     "the detected schema equals the oracle's typed value sets and key set, and diff_jobs equals the per-job non-shared pairs and reconstructs each state point.",
                note="Trusted: CrossHair path enumeration; oracles refs.schema/refs.diffs. Corpus injected at Project._build_index. One open known finding (empty vs non-empty mapping under exclude_const).",
                ref="DESIGN.md §4 C18"),
    "C16": dict(tech="SMT-backed symbolic execution (CrossHair+z3) of the export path-map / leaf-node / zip-attribution kernels, direct z3 regex-inclusion queries on the live schema regexes, and real-file-system round trips with symbolic configuration",
                text="Bounded proof: leaf/node check raises iff one of <=3 paths (<=3 segments over {a,b,ab}) is a component-wise ancestor of another, for every order; _export_jobs either raises before the first copy or yields an injective, prefix-free path map "
                     "for 2-3 jobs over a textually colliding value domain and 7 path specifications; zip import attributes every member to the job whose root contains it component-wise and writes nothing outside job directories; "
                     "importing an export of any two jobs over a in {1, 10, 1.0, '1', True, False} with a typed schema string or a re-labelling callable yields exact copies that pass check() or raises with nothing copied; "
                     "directories that a schema maps to one job are rejected, never merged.",
                note="Trusted: CrossHair path enumeration; stub ZipFile / recording copytree. Outside: compression codecs, >3 jobs in kernels.",
                ref="DESIGN.md §4 C16"),
    "C03": dict(tech="SMT-backed symbolic execution (CrossHair+z3) of the real Project/Job API on an in-memory POSIX model with symbolic pre-state/operations; direct z3 regex query on the live JOB_ID_REGEX",
                text="Bounded proof: z3 decides (unbounded strings) that the names accepted by Project._job_dirs are exactly the 32-character lowercase hex ids; CrossHair confirms the same on constructed names of length 0..40; "
                     "workspace-equals-model harnesses over a closed state point universe (see evidence for the operation set).",
                note="Trusted: sre_parse->z3 translation (witnesses replayed on the real function), MemFS POSIX model (validated against tmpfs on every run), CrossHair path enumeration.",
                ref="DESIGN.md §4 C03"),
    "C04": dict(tech="SMT-backed symbolic execution (CrossHair+z3) of the real re-key / move / clone code on an in-memory POSIX model next to a plain-dict model",
                text="Bounded proof: for every (old state point, edit route, value, destination state, handle provenance, sibling kind, payload) in the stated universe the real re-key protocol leaves workspace == model, "
                     "all live shallow copies follow (id, path, statepoint, cached_statepoint, document), collisions raise DestinationExistsError with both jobs byte-identical, move/clone carry documents and nested files, "
                     "update_statepoint without overwrite never alters an existing key.",
                note="Trusted: MemFS POSIX model (validated against tmpfs on every run; counterexamples replayed on the real FS), CrossHair path enumeration, the plain-dict model in vflib/ws.py. One open known finding (collection -> None assignment).",
                ref="DESIGN.md §4 C04"),
    "C08": dict(tech="SMT-backed symbolic execution (CrossHair+z3) over histories of the real cache code on an in-memory POSIX model",
                text="Bounded proof: for every initial workspace subset of a 4-job universe, every cache-file state (absent/exact/stale extra/stale missing/both) and every history of length <= 2 (quick) / 3-4 (thorough) over "
                     "{init, remove, re-key, update_cache, restart, delete cache file}, all observations (len, find_jobs, filtered find_jobs, open_job(id).statepoint) agree with the model in the running session, in a fresh session and in a fresh session without the cache file; "
                     "after update_cache() the decoded file lists exactly the workspace, and an immediate second call does nothing.",
                note="Trusted: MemFS (+gzip over it, synchronous ThreadPool stand-in) validated against tmpfs on every run; CrossHair path enumeration. Outside: corrupted workspaces, >4 jobs.",
                ref="DESIGN.md §4 C08"),
    "C10": dict(tech="SMT-backed symbolic execution (CrossHair+z3): crash step, torn length, failing step and the two steps of a concurrent reader are symbolic (step indices unbounded) over the real document/cache writers on an in-memory POSIX model with inode semantics",
                text="Bounded proof: in 11 write scenarios (job/project documents of several sizes, delete, reset, buffered flush of two jobs, update_cache first/growing/shrinking/warm) and both states of the dependency's thread-safety switch, "
                     "for a crash before ANY step index, a torn write of 0/1/half/len-1 bytes, a failing step (4 errnos), and every placement of a reader's open and read among the writer's steps, the target file parses completely to the old or the new content and only temp files are left.",
                note="Trusted: MemFS POSIX/inode model (validated against tmpfs on every run, counterexamples replayed on the real FS); POSIX rename atomicity; process-crash durability. Outside: power loss, NFS, chunked readers.",
                ref="DESIGN.md §4 C10"),
    "C11": dict(tech="SMT-backed symbolic execution (CrossHair+z3): the crash / failing step index is an unbounded symbolic int compared at every file-system step of the real lifecycle code running on an in-memory POSIX model",
                text="Bounded proof: in 14 lifecycle scenarios (init x4, re-key x4, move x2, clone, remove, clear, reset), both directory-listing orders, for a crash before ANY step, torn writes, and any step failing with EIO/ENOSPC/EACCES/EXDEV/EROFS "
                     "(thorough: two failing steps), and for a directory region (job directory, destination, a whole workspace) that is denied from ANY step on (EACCES/EIO; isfile/isdir/exists answer False there): bystander jobs byte-identical, payload under exactly one id directory, check() names exactly the non-validating directories, nothing validates with a foreign state point, "
                     "and a handled error either propagates leaving pre-state / success-state / check()-detectable state or the call's result equals a fault-free run.",
                note="Trusted: MemFS model incl. shutil.copytree/rmtree expansions (validated against tmpfs on every run; counterexamples replayed on the real FS). Outside: ENOENT faults, power loss, h5py.",
                ref="DESIGN.md §4 C11"),
    "C09": dict(tech="SMT-backed symbolic execution (CrossHair+z3) of the real check / repair / open-by-id code on an in-memory POSIX model with symbolic damage (victims, kind, byte offset, byte class, cache presence)",
                text="Bounded proof: for a 3-job project (flat, nested, non-ASCII state points), any victim subset, truncation at every offset, single-byte replacement at every offset by 10 byte classes, deletion, foreign file, other valid JSON, "
                     "==-equal-but-different JSON and directory rename, with and without a persistent cache: check() names exactly the independently classified damaged jobs, open_job(id).statepoint() in a fresh session never returns a value that does not hash to the id, "
                     "repair() restores every recoverable job, check() afterwards matches the classification, and no document or data file changes.",
                note="Trusted: MemFS (validated against tmpfs on every run; counterexamples replayed on the real FS); the independent damage classification (refs.canon_id). Outside: multi-byte damage, swapped directories.",
                ref="DESIGN.md §4 C09"),
    "C02": dict(tech="SMT-backed symbolic execution (CrossHair+z3) of open_job / init / reopen / id-prefix resolution on an in-memory POSIX model",
                text="Bounded proof: for 8 typed state point templates, 5 states of a pre-existing state point file, caller-side mutations and cache presence: open_job performs no mutating file-system step, init() persists a type-exact state point under the canonical id, "
                     "is idempotent, never rewrites a valid (or corrupt) existing file, and a fresh session finds the job by iteration / membership / len / full id; id-prefix resolution over 2-3 symbolic directory names returns the unique match, LookupError on ambiguity, KeyError otherwise, "
                     "independent of which ids the session already knows.",
                note="Trusted: MemFS (validated against tmpfs on every run; counterexamples replayed on the real FS). Outside: prefixes over real md5 ids at every length.",
                ref="DESIGN.md §4 C02"),
    "C05": dict(tech="SMT-backed symbolic execution (CrossHair+z3) over operation sequences on the real Job.document / Project.document / signac.buffered stack on an in-memory POSIX model, against a plain-dict model and an unbuffered twin run",
                text="Bounded proof: for every sequence of 2 (quick) / 3 (thorough) operations from 14 opcodes x 4 arguments on a job or project document, through one or two alternating handles, unbuffered / fully buffered / partly buffered / nested with capacity 0: "
                     "value through the writing handle, through the other handle (outside blocks) and the JSON file equal the plain-dict model after every operation, and the buffered run leaves the same documents as the unbuffered run. Two open known findings (dependency behaviour).",
                note="Trusted: MemFS incl. stat/mtime (validated against tmpfs on every run). synced_collections is exercised as is. Outside: concurrent external modification, capacities other than 0/default, H5.",
                ref="DESIGN.md §4 C05"),
    "C12": dict(tech="SMT-backed symbolic execution (CrossHair+z3) over a symbolic schedule vector: actors run the real init/document code natively on a shared in-memory POSIX model, every file-system step is a scheduling point decided by the solver (sleep-set reduction, stated pre-emption bound)",
                text="Bounded proof: for every pair of actor scripts from {init same job, init own job, write own document, read the other's document, len+iterate, create workspace then init}, from empty and populated workspaces, "
                     "every interleaving of their file-system steps (up to the sleep-set reduction) with at most 2 (quick) / 4 (thorough) pre-emptions, and three actors with 1 pre-emption (thorough): no actor raises, no read of a state point or document ever returns unparsable bytes, "
                     "check() passes afterwards, exactly the requested jobs exist, documents hold a writer's value, completed writes are visible to later reads.",
                note="Trusted: MemFS atomic steps; actors are coroutine threads sharing only MemFS (per-actor lock table / temp names). Outside: >3 actors, same-document writers, schedules beyond the pre-emption bound, reading state points of jobs that are concurrently being created.",
                ref="DESIGN.md §4 C12"),
    "C13": dict(tech="SMT-backed symbolic execution (CrossHair+z3) over the configuration space of real Project.sync / Job.sync calls on the real file system (per-path scratch projects), post-conditions on byte snapshots",
                text="Bounded proof: for every project pair over 2 state points (all presence combinations), file states of a top-level and a nested file (named f, sub/g; also names on filecmp's ignore list and names with braces) (absent/one-sided/identical/different, mtime relation), a common sub-directory, 7 job-document and 3 project-document states, "
                     "crossed with strategy x recursive x exclude x entry point (file family) and doc_sync x entry point (document family): whenever the sync returns, every selected source job is in the destination with the same state point, every non-excluded source-only file is copied byte-identically, "
                     "destination-only files and document keys are unchanged, the source is byte-identical, no backup files remain, and a second identical sync changes nothing.",
                note="Trusted: tmpfs semantics; CrossHair path enumeration over the configuration integers (the sync code runs natively per path). Outside: symlink/permission options, Ask, >2 jobs.",
                ref="DESIGN.md §4 C13"),
    "C15": dict(tech="SMT-backed symbolic execution (CrossHair+z3) over the configuration space of real sync calls on the real file system with a twin real run per path",
                text="Bounded proof: dry_run=True through Project.sync / Job.sync / sync_projects / sync_jobs leaves both trees byte- and mtime-identical and ends in the same outcome class (returns / FileSyncConflict / DocumentSyncConflict) as a real run on an identical pair, for pairs where files would be copied, jobs cloned and flat/nested documents merged; "
                     "deep=True detects (and, with 'always', overwrites) differing files of equal size and mtime at top level and nested, at job and project level; a dry run with symbolic links in the source and follow_symlinks / preserve_permissions / preserve_times in any combination changes neither content, link targets, permission bits nor mtimes; excluded file names and unselected jobs are never created or modified; parallel in {2, True} yields the sequential tree.",
                note="Trusted: tmpfs semantics. Outside: pool-internal thread interleavings, directory-name exclude patterns.",
                ref="DESIGN.md §4 C15"),
    "C17": dict(tech="SMT-backed symbolic execution (CrossHair+z3) over (workspace before, workspace after, selection, path spec) with the real create_linked_view on the real file system",
                text="Bounded proof: for ANY subset m1 of a 6-job universe (keys/values with space, dot, non-ASCII, nested, heterogeneous) viewed first and ANY subset m2 (plus unrepresentable state points) viewed second, all jobs or a job_ids subset, automatic or custom path: "
                     "the view holds exactly one relative 'job' link per selected job resolving to its directory at a path spelling its own state point, nothing but the directories leading there; the incremental result equals a from-scratch build; a third run changes no inode or mtime; "
                     "rejected inputs (RuntimeError) leave the existing view unchanged.",
                note="Trusted: tmpfs symlink semantics. Outside: >6 jobs, file systems without symlinks.",
                ref="DESIGN.md §4 C17"),
    "C19": dict(tech="SMT-backed symbolic execution (CrossHair+z3) over encoded directory layouts materialised on the real file system; every directory queried absolute and relative to every ancestor",
                text="Bounded proof: for every layout of depth <= 4 (quick) / 5 (thorough) built from plain / 'workspace' / 32-hex levels with or without a project at each level (id-like names only below a project's workspace), get_project (search on/off) returns the nearest enclosing project, "
                     "get_job returns the innermost job directory with the project whose workspace holds it, both raise LookupError otherwise and for non-existent paths; symlinked job directories belong to the project holding the link; init_project on an existing project (any content) changes no byte or mtime.",
                note="Trusted: tmpfs path semantics. Outside: a 'workspace' directory that is itself a project root, symlinked project directories.",
                ref="DESIGN.md §4 C19"),
    "C20": dict(tech="direct z3 query generated from the AST of the live version gate (all integers) + SMT-backed symbolic execution (CrossHair+z3) of the gate on bounded ints/decimal strings and over generated legacy layouts migrated on the real file system",
                text="z3 proves for ALL integers that the comparison chain of Project._check_schema_compatibility raises iff the version differs from the supported one (witnesses would be replayed); CrossHair confirms the executed gate for v in [-8,16] and as decimal strings; "
                     "every foreign-version layout (current and legacy, 5 versions) is refused by Project(), get_project, init_project and upward search with the tree byte-identical; every generated v0/v1 project (3 names x 3 workspace dirs x version x cache x history x 0-2 jobs x colliding workspace) "
                     "migrates to a project that opens with identical ids/state points/documents/files, a refused migration loses nothing and succeeds after the obstacle is removed, and a second migration is a no-op.",
                note="Trusted: the AST-shape extraction of the gate (any unexpected shape is a harness error), tmpfs semantics. Outside: non-ASCII names, concurrent migrations, crashes during migration.",
                ref="DESIGN.md §4 C20"),
    "C07": dict(tech="SMT-backed symbolic execution (CrossHair+z3) of filterparse / find_jobs / JobsCursor / groupby: symbolic operands and integer tokens through the real token parser, solver-enumerated corpora for cursors and groupby on an in-memory POSIX model",
                text="Bounded proof: every equivalent spelling (nested vs dotted key, with/without sp. prefix incl. keys that merely start with sp/doc, operator as mapping vs key suffix, mapping vs sequence of pairs) of 7 atom kinds over 5 keys selects the same ids as the per-job oracle; "
                     "command-line tokens (symbolic ints rendered with str, 20 value tokens incl. words, floats, /regex/, JSON, '!') parse to the mapping they stand for and select the same jobs; for every sub-corpus of 4 jobs and 8 filters a cursor's len / iteration / indexing / every slice / membership describe the oracle's id set; "
                     "groupby over 12 key forms (top-level, sp./doc. prefixed, nested, tuples, None, callable) x default x filter yields disjoint groups whose union is the selection and whose labels are the members' own values.",
                note="Trusted: MemFS (validated against tmpfs); oracle refs.match; _print_err stubbed. Outside: the shell entry point itself, unorderable labels.",
                ref="DESIGN.md §4 C07"),
}

MORE = {
    "C02": " Strings of 32+ characters that are no ids but name an existing path below the workspace raise KeyError.",
    "C03": " A Project built by the real constructor from a relative path keeps acting on the project after the working directory changed (real file system). The operation set includes whole assignments that must be refused as a whole (no effect on disk or on any live handle), remove-then-reopen-by-id within one session, and shallow copies that follow move().",
    "C04": " Also: a destination directory without state point file is never taken over; update_statepoint without overwrite never alters an ==-equal value of another JSON type; a refused change followed by a successful one through either of two shallow copies; clone of payloads with symbolic links is an independent copy (real file system).",
    "C05": " Life-cycle harness: removal through another handle / through a shallow copy followed by writes through the remaining handle; a transient I/O fault on the first document access followed by a retry through the same handle.",
    "C06": " Further templates: one key used in several sub-expressions (three jobs), $or and $not side by side, key names that start like a namespace, lists of mappings with nested containers, $near at zero; a raising query counts as disagreement.",
    "C07": " The string front end (parse_filter on a token string) agrees with the token list; filtered cursors are snapshots across workspace changes and independent of later changes to the caller's filter mapping; one-shot iterables as grouping keys.",
    "C08": " Histories also contain re-keys through by-id handles, jobs initialised by another process, re-assignment of the identical state point; abbreviated ids resolve against the workspace (also as the first action of a session); the real constructor with a configured cache-miss threshold and non-finite state point values (real file system).",
    "C09": " A second universe with the empty state point and falsy values; chains of renamed directories (A to an unused id, B to A's id) are repaired in one call.",
    "C10": " After every crash and between any two writer steps a fresh session reads through signac's own read path (old or new, nothing raised, targets still old-or-new afterwards); Job.clear/reset through a fresh handle; a device that runs full at ANY step and stays full; the migration's project-document write with all of the migration module's own I/O numbered.",
    "C11": " Without a fault every scenario ends like its reference run; rmtree error handlers are modelled. Also clone onto an existing job and into an empty destination directory, each with and without a persistent cache listing all jobs.",
    "C12": " Scripts include init(force=True) of the same job (pre-emption bound 3 in the quick tier).",
    "C13": " Also: one exclude list object reused for two syncs, data files named like signac's own files, an empty destination directory named by a source id, destination-only files named like document backups, exclude patterns that match signac's own file names, symbolic links to directories inside a source job, an I/O fault in the middle of copying one file (never a normal return with a truncated file), a file against a directory of the same name (reported, never skipped silently).",
    "C14": " FileSync.update with SYMBOLIC integer modification times (both getmtime answers are solver variables): overwritten iff the source is strictly newer.",
    "C15": " Also: exclude patterns inside source-only sub-directories and newly cloned jobs, job-level dry runs into uninitialised or half-made destinations, two deep syncs in one process with an in-place rewrite of equal size and mtime, user-written document strategies under dry_run, parallel runs report the conflict a sequential run reports.",
    "C16": " Round trips with empty directories, zip payloads, targets whose path starts like the importing workspace's, paths with '..' or absolute paths (rejected), un-normalised origins, the empty state point with a callable schema.",
    "C17": " Selections: all / all but one / empty / one-shot generator; keys named like the link ('job'), values '.', '..', '' (rejected); the workspace is byte-identical around every view update.",
    "C18": " The value universe includes mappings with digit-string keys next to lists and mappings inside lists that hold lists.",
    "C19": " Directory names that merely contain an id (prefix/suffix, 33-64 hex, upper case; z3 builds further witnesses from the live id regex), a left-over legacy configuration between or above the queried directory, symlinked jobs are listed.",
    "C20": " Workspace names '.workspace', '../workspace', '$VAR/ws', '$VAR/ws' with an absolute value, a custom workspace that was never created (also with a colliding 'workspace'), project names with '%' and '$', a version-less v2 configuration, and a process that probed the directory before the project appeared.",
}
for _k, _v in MORE.items():
    CHECKS[_k]["text"] += _v
NOT_YET = {}


def main():
    props = [json.loads(l) for l in open(os.path.join(HERE, "properties.jsonl")) if l.strip()]
    na_reasons = json.load(open(os.path.join(HERE, "vflib", "not_applicable.json")))
    checks, na = [], []
    for p in props:
        pid = p["id"]
        c = CHECKS.get(pid)
        if c and os.path.exists(os.path.join(HERE, "harness", pid + ".py")):
            checks.append({
                "property_id": pid,
                "quick_cmd": f"./vf check {pid} --tier quick",
                "thorough_cmd": f"./vf check {pid} --tier thorough",
                "evidence_file": f"/verif/evidence/{pid}.json",
                "replay_cmd_template": f"./vf replay {pid} {{path}}",
                "engine": "vf",
                "level_claimed": {"category": "model_checking", "text": c["text"], "design_ref": c["ref"]},
                "level_note": c["note"],
                "technique": c["tech"],
            })
        else:
            na.append({"property_id": pid, "reason": na_reasons.get(pid, "solver-based check for this property is not built yet in this revision (planned: DESIGN.md §4)")})
    m = {
        "version": 1,
        "setup_cmd": "bash vflib/bootstrap.sh",
        "hooks": {"guard": "GLOTZERLAB_SIGNAC_VERIF", "enable": "no source hooks: harnesses substitute environment stubs by assignment into module namespaces at run time; /repo is imported as is",
                  "baseline_off_cmd": "cd /repo && /venv/bin/python -m pytest -ra -q -p no:cacheprovider --timeout=900 --continue-on-collection-errors",
                  "source_commits": [], "add_only": True},
        "engines": [{"name": "vf", "path": "/verif/vf", "serves_properties": [c["property_id"] for c in checks],
                     "kind_free_text": "runner spawning one `crosshair check --analysis_kind asserts` process per harness partition over the real /repo code (z3 back end), direct z3 regex/string queries generated from live objects, replay of every counterexample in a plain interpreter, known-findings partitioning"}],
        "checks": checks,
        "not_applicable": na,
        "notes": "All checks are solver-based bounded checks of the real code; see DESIGN.md. Exit 3 = inconclusive/harness error (never success).",
    }
    with open(os.path.join(HERE, "MANIFEST.json"), "w") as f:
        json.dump(m, f, indent=1)
    print(f"{len(checks)} checks, {len(na)} not_applicable")


if __name__ == "__main__":
    main()
