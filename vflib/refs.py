"""Reference oracles, written independently of signac (no signac import in this file)."""
import hashlib


def canon(v):
    """Canonical JSON text: keys sorted at every level, ', ' and ': ' separators, ASCII escapes (json.dumps defaults + sort_keys)."""
    if v is None:
        return "null"
    if v is True:
        return "true"
    if v is False:
        return "false"
    if isinstance(v, int):
        return _int_str(v)
    if isinstance(v, float):
        return float.__repr__(v)
    if isinstance(v, str):
        return '"' + "".join(_esc(c) for c in v) + '"'
    if isinstance(v, (list, tuple)):
        return "[" + ", ".join(canon(x) for x in v) + "]"
    if isinstance(v, dict):
        return "{" + ", ".join(canon(k) + ": " + canon(v[k]) for k in sorted(v)) + "}"
    raise TypeError(type(v))


def _int_str(n):
    return str(n)


_SHORT = {'"': '\\"', "\\": "\\\\", "\n": "\\n", "\r": "\\r", "\t": "\\t", "\b": "\\b", "\f": "\\f"}


def _esc(c):
    if c in _SHORT:
        return _SHORT[c]
    o = ord(c)
    if 0x20 <= o < 0x7F:
        return c
    if o < 0x10000:
        return "\\u%04x" % o
    o -= 0x10000
    return "\\u%04x\\u%04x" % (0xD800 | (o >> 10), 0xDC00 | (o & 0x3FF))


def canon_id(v):
    return hashlib.md5(canon(v).encode()).hexdigest()


def same_json(a, b):
    """Equality as JSON values: type-exact for null/bool/int/float/str, list==tuple, mappings key-wise."""
    if isinstance(a, bool) or isinstance(b, bool) or a is None or b is None:
        return type(a) is type(b) and a == b
    if isinstance(a, float) and isinstance(b, float):
        return float.__repr__(a) == float.__repr__(b)  # 0.0 and -0.0 are different JSON texts
    if isinstance(a, (int, float, str)) or isinstance(b, (int, float, str)):
        return type(a) is type(b) and a == b
    if isinstance(a, (list, tuple)) and isinstance(b, (list, tuple)):
        return len(a) == len(b) and all(same_json(x, y) for x, y in zip(a, b))
    if isinstance(a, dict) and isinstance(b, dict):
        return set(a) == set(b) and all(same_json(a[k], b[k]) for k in a)
    return False
