"""Reference oracles, written independently of signac (no signac import in this file)."""
import hashlib


def canon(v):
    """Canonical JSON text: keys sorted at every level, ', ' and ': ' separators, ASCII escapes (json.dumps defaults + sort_keys)."""
    if v is None:
        return "null"
    if v is True:
        return "true"
    if v is False:
        return "false"
    if isinstance(v, int):
        return _int_str(v)
    if isinstance(v, float):
        return float.__repr__(v)
    if isinstance(v, str):
        return '"' + "".join(_esc(c) for c in v) + '"'
    if isinstance(v, (list, tuple)):
        return "[" + ", ".join(canon(x) for x in v) + "]"
    if isinstance(v, dict):
        return "{" + ", ".join(canon(k) + ": " + canon(v[k]) for k in sorted(v)) + "}"
    raise TypeError(type(v))


def _int_str(n):
    return str(n)


_SHORT = {'"': '\\"', "\\": "\\\\", "\n": "\\n", "\r": "\\r", "\t": "\\t", "\b": "\\b", "\f": "\\f"}


def _esc(c):
    if c in _SHORT:
        return _SHORT[c]
    o = ord(c)
    if 0x20 <= o < 0x7F:
        return c
    if o < 0x10000:
        return "\\u%04x" % o
    o -= 0x10000
    return "\\u%04x\\u%04x" % (0xD800 | (o >> 10), 0xDC00 | (o & 0x3FF))


def canon_id(v):
    return hashlib.md5(canon(v).encode()).hexdigest()


def same_json(a, b):
    """Equality as JSON values: type-exact for null/bool/int/float/str, list==tuple, mappings key-wise."""
    if isinstance(a, bool) or isinstance(b, bool) or a is None or b is None:
        return type(a) is type(b) and a == b
    if isinstance(a, float) and isinstance(b, float):
        return float.__repr__(a) == float.__repr__(b)  # 0.0 and -0.0 are different JSON texts
    if isinstance(a, (int, float, str)) or isinstance(b, (int, float, str)):
        return type(a) is type(b) and a == b
    if isinstance(a, (list, tuple)) and isinstance(b, (list, tuple)):
        return len(a) == len(b) and all(same_json(x, y) for x, y in zip(a, b))
    if isinstance(a, dict) and isinstance(b, dict):
        return set(a) == set(b) and all(same_json(a[k], b[k]) for k in a)
    return False


# ---------------------------------------------------------------------------------------------------------------
# Per-job reference evaluator for the documented filter grammar (C06/C07). Direct recursive evaluation on ONE job's
# own {'sp': ..., 'doc': ...}; no index, no other jobs.
_MISSING = object()
_TYPES = {"int": int, "float": float, "bool": bool, "str": str, "list": (list, tuple), "null": type(None)}
_OPS = ("$eq", "$ne", "$gt", "$gte", "$lt", "$lte", "$in", "$nin", "$exists", "$regex", "$type", "$near")


def _norm(v):
    """lists and tuples are the same JSON value"""
    if isinstance(v, (list, tuple)):
        return tuple(_norm(x) for x in v)
    return v


def _resolve(doc, path):
    cur = doc
    for p in path:
        if isinstance(cur, dict) and p in cur:
            cur = cur[p]
        else:
            return _MISSING
    return cur


def _ns_path(key):
    parts = key.split(".")
    if parts[0] not in ("sp", "doc"):
        parts = ["sp"] + parts
    return parts


def match(jobdoc, flt):
    """True iff the job (its own state point under 'sp' and document under 'doc') satisfies the filter."""
    import math, re
    for key, val in flt.items():
        if key == "$and":
            if not all(match(jobdoc, f) for f in val):
                return False
        elif key == "$or":
            if not any(match(jobdoc, f) for f in val):
                return False
        elif key == "$not":
            if match(jobdoc, val):
                return False
        else:
            if not _match_key(jobdoc, _ns_path(key), val):
                return False
    return True


def _match_key(jobdoc, path, val):
    import math, re
    if path[-1].startswith("$"):
        return _apply_op(jobdoc, path[:-1], path[-1], val)
    if isinstance(val, dict) and val:
        return all(_match_key(jobdoc, path + k.split("."), v) for k, v in val.items())
    have = _resolve(jobdoc, path)
    if have is _MISSING:
        return False
    if isinstance(have, dict):
        return isinstance(val, dict) and not val and not have and False  # mapping values are never equal to a scalar/list operand
    return _norm(have) == _norm(val)


def _apply_op(jobdoc, path, op, arg):
    import math, re
    have = _resolve(jobdoc, path)
    if op == "$exists":
        return (have is not _MISSING) == bool(arg)
    if have is _MISSING:
        return False
    isdict = isinstance(have, dict)
    h = _norm(have)
    if op == "$eq":
        return (not isdict) and h == _norm(arg)
    if op == "$ne":
        return isdict or h != _norm(arg)
    if op in ("$gt", "$gte", "$lt", "$lte"):
        a = _norm(arg)
        return {"$gt": h > a, "$gte": h >= a, "$lt": h < a, "$lte": h <= a}[op] if not isdict else False
    if op == "$in":
        return (not isdict) and any(h == _norm(x) for x in arg)
    if op == "$nin":
        return isdict or not any(h == _norm(x) for x in arg)
    if op == "$regex":
        return isinstance(have, str) and re.search(arg, have) is not None
    if op == "$type":
        return (not isdict) and isinstance(have, _TYPES[arg])
    if op == "$near":
        rel, ab = 1e-09, 0.0
        if isinstance(arg, (list, tuple)):
            if len(arg) == 1:
                arg = arg[0]
            elif len(arg) == 2:
                arg, rel = arg
            else:
                arg, rel, ab = arg
        return (not isdict) and math.isclose(have, float(arg), rel_tol=float(rel), abs_tol=float(ab))
    raise KeyError(op)


# ---------------------------------------------------------------------------------------------------------------
# C18 oracles
def flat_leaves(sp, pre=""):
    """dotted leaf key -> value; a leaf is any non-mapping value or an empty mapping"""
    out = {}
    for k, v in sp.items():
        if isinstance(v, dict) and v:
            out.update(flat_leaves(v, pre + k + "."))
        else:
            out[pre + k] = v
    return out


def schema(sps, exclude_const):
    """{dotted key: {type: set(values)}} over the given state points (lists as tuples); with exclude_const the keys on which
    ALL jobs agree (key present everywhere, same JSON value) are omitted."""
    flats = [flat_leaves(sp) for sp in sps]
    keys = set()
    for f in flats:
        keys |= set(f)
    out = {}
    for k in keys:
        allv = [f[k] for f in flats if k in f]  # an empty mapping is a (value-less) leaf: it counts for constancy
        if exclude_const and sps and len(allv) == len(sps) and all(same_json(allv[0], v) for v in allv):
            continue
        vals = [v for v in allv if not isinstance(v, dict)]
        by = {}
        for v in vals:
            v = _norm(v)
            by.setdefault(type(v), set()).add(canon(v))
        # values as canonical JSON texts: keeps 1 / True / 1.0 apart although they are ==, and is independent of the hash of
        # mappings nested in lists
        out[k] = {t: sorted(s) for t, s in by.items()}
    return out


def schema_of(project_schema):
    """normalise a signac ProjectSchema the same way"""
    return {k: {t: sorted(canon(x) for x in s) for t, s in project_schema[k].items() if s} for k in project_schema}   # a list: duplicates show


def diffs(sps):
    """per job: nested dict of its (dotted key, value) pairs not shared by all jobs (Python ==)"""
    flats = [{k: _norm(v) for k, v in flat_leaves(sp).items()} for sp in sps]
    common = [kv for kv in flats[0].items() if all(k in f and f[k] == v for f in flats for k, v in [kv])] if flats else []
    out = []
    for f in flats:
        d = {}
        for k, v in f.items():
            if (k, v) in common:
                continue
            parts = k.split(".")
            cur = d
            for p in parts[:-1]:
                cur = cur.setdefault(p, {})
            cur[parts[-1]] = v
        out.append(d)
    return out, dict(common)
