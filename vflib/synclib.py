"""Shared scenario builder for the real-file-system sync harnesses (C13, C14, C15): two real signac projects in a per-path scratch tree
under /dev/shm, built from small integers (all concrete by the time they get here), explicit mtimes, snapshots."""
import json, os, re, shutil, stat

import signac
from signac.sync import DocSync, FileSync
from signac.errors import FileSyncConflict, DocumentSyncConflict, SchemaSyncConflict

SPS = [{"x": 0}, {"x": 1}]
T_OLD, T_MID, T_NEW = 1_000_000_000, 1_000_000_500, 1_000_001_000


class Scratch:
    n = 0

    def __enter__(self):
        Scratch.n += 1
        self.root = "/dev/shm/vf_sync_%d_%d" % (os.getpid(), Scratch.n)
        shutil.rmtree(self.root, ignore_errors=True)
        os.makedirs(self.root)
        return self

    def __exit__(self, *a):
        shutil.rmtree(self.root, ignore_errors=True)
        return False


def snap(root, with_mtime=False):
    """{relpath: None (dir) | bytes | ('link', target)}"""
    out = {}
    for dp, dn, fn in os.walk(root):
        for d in dn:
            p = os.path.join(dp, d)
            out[os.path.relpath(p, root)] = ("link", os.readlink(p)) if os.path.islink(p) else None
        for f in fn:
            p = os.path.join(dp, f)
            if os.path.islink(p):
                out[os.path.relpath(p, root)] = ("link", os.readlink(p))
            else:
                with open(p, "rb") as fh:
                    out[os.path.relpath(p, root)] = (fh.read(), os.stat(p).st_mtime_ns) if with_mtime else fh.read()
    return out


def put(path, data, mtime):
    os.makedirs(os.path.dirname(path), exist_ok=True)
    with open(path, "wb") as f:
        f.write(data)
    os.utime(path, ns=(mtime * 10**9, mtime * 10**9))


# file states: 0 absent in both, 1 src only, 2 dst only, 3 both identical, 4 both different (sizes differ), 5 both different, same size
def place_file(src_job, dst_job, rel, state, mrel):
    """mrel: 0 src older, 1 equal mtime, 2 src newer"""
    ts, td = {0: (T_OLD, T_NEW), 1: (T_MID, T_MID), 2: (T_NEW, T_OLD)}[mrel]
    if state in (1, 3, 4, 5) and src_job is not None:
        put(src_job.fn(rel), b"SRC" if state != 4 else b"SRC-longer", ts)
    if state in (2, 3, 4, 5) and dst_job is not None:
        put(dst_job.fn(rel), b"SRC" if state == 3 else b"DST", td)


# document states: 0 none, 1 src only {s:1}, 2 dst only {d:2}, 3 both identical, 4 disjoint keys, 5 flat conflict on k (+ disjoint), 6 nested conflict on n.m.z (+ dst-only nested key)
def docs(state):
    if state == 0:
        return None, None
    if state == 1:
        return {"s": 1}, None
    if state == 2:
        return None, {"d": 2}
    if state == 3:
        return {"k": 1, "n": {"m": {"z": 1}}}, {"k": 1, "n": {"m": {"z": 1}}}
    if state == 4:
        return {"s": 1, "n": {"a": 1}}, {"d": 2, "n": {"b": 2}}
    if state == 5:
        return {"a0": 0, "k": 1, "s": 1}, {"k": 0, "d": 2}
    return {"a0": 0, "n": {"m": {"z": 1, "s": 1}}}, {"n": {"m": {"z": 0, "d": 2}, "only": 3}, "d": 2}


CONFLICT_KEYS = {5: ["k"], 6: ["n.m.z"]}


def strategy(idx, calls=None):
    if idx == 0:
        return None
    if idx == 1:
        return FileSync.always
    if idx == 2:
        return FileSync.never
    if idx == 3:
        return FileSync.update
    val = idx == 4

    def custom(src, dst, fn):
        if calls is not None:
            calls.append(fn)
        return val
    return custom


def strategy_says(idx, mrel):
    """reference verdict of the file strategy for a conflicting file"""
    return {1: True, 2: False, 3: mrel == 2, 4: True, 5: False}[idx]


def doc_sync(idx):
    """0 default (None), 1 ByKey(predicate selecting everything), 2 ByKey(regex selecting the conflict keys), 3 update, 4 NO_SYNC, 5 COPY, 6 ByKey(predicate selecting nothing)"""
    if idx == 0:
        return None
    if idx == 1:
        return DocSync.ByKey(lambda key: True)
    if idx == 2:
        return DocSync.ByKey(r"^(k|n\.m\.z)$")
    if idx == 3:
        return DocSync.update
    if idx == 4:
        return DocSync.NO_SYNC
    if idx == 5:
        return DocSync.COPY
    return DocSync.ByKey(lambda key: False)


def doc_overwrites(idx):
    """does the document strategy overwrite a conflicting key? None = raises DocumentSyncConflict"""
    return {0: None, 1: True, 2: True, 3: True, 4: False, 5: True, 6: False}[idx]


def build(root, pres, f_state, g_state, mrel, doc_state, pdoc_state, csub=False, names=("f", "sub/g")):
    """pres: 4 bits  (job0 in src, job0 in dst, job1 in src, job1 in dst). Files/doc states apply to job0; job1 carries a fixed payload."""
    src = signac.init_project(os.path.join(root, "src"))
    dst = signac.init_project(os.path.join(root, "dst"))
    js = {}
    for i, sp in enumerate(SPS):
        js[("s", i)] = src.open_job(sp).init() if pres >> (2 * i) & 1 else None
        js[("d", i)] = dst.open_job(sp).init() if pres >> (2 * i + 1) & 1 else None
    place_file(js[("s", 0)], js[("d", 0)], names[0], f_state, mrel)
    place_file(js[("s", 0)], js[("d", 0)], names[1], g_state, mrel)
    if csub:   # the sub-directory exists on both sides with an identical file
        place_file(js[("s", 0)], js[("d", 0)], "sub/c", 3, 1)
    sd, dd = docs(doc_state)
    if sd is not None and js[("s", 0)] is not None:
        js[("s", 0)].document.reset(sd)
    if dd is not None and js[("d", 0)] is not None:
        js[("d", 0)].document.reset(dd)
    if js[("s", 1)] is not None:
        put(js[("s", 1)].fn("h"), b"H-src", T_MID)
        js[("s", 1)].document["j1"] = 1
    if js[("d", 1)] is not None:
        put(js[("d", 1)].fn("only_dst"), b"keep", T_MID)
        js[("d", 1)].document["keep"] = 1
    ps, pd = docs(pdoc_state)
    if ps is not None:
        src.document.reset(ps)
    if pd is not None:
        dst.document.reset(pd)
    # fresh handles (a new session) so that no lazily cached state leaks from the set-up into the call under test
    return signac.get_project(src.path, search=False), signac.get_project(dst.path, search=False)


def outcome(fn):
    """run fn(); classify: 'ok' | 'file' | 'doc' | 'schema' | ('error', type)"""
    try:
        fn()
        return "ok"
    except FileSyncConflict:
        return "file"
    except DocumentSyncConflict:
        return "doc"
    except SchemaSyncConflict:
        return "schema"
    except Exception as e:  # noqa
        return ("error", type(e).__name__, str(e)[:100])


def doc_of(tree, jobdir):
    raw = tree.get(os.path.join(jobdir, "signac_job_document.json"))
    return json.loads(raw) if raw else {}


def flat(d, pre=""):
    out = {}
    for k, v in d.items():
        if isinstance(v, dict) and v:
            out.update(flat(v, pre + k + "."))
        else:
            out[pre + k] = v
    return out
