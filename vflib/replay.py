"""Plain-interpreter replay of a CrossHair counterexample: python -m vflib.replay C06 "h_x(1, True)".
rc 1 = the harness assertion (or an exception) reproduces on the real code without any symbolic machinery; 0 = it does not."""
import os, subprocess, sys, traceback
from vflib.runner import load_module
from vflib import hutil


def main():
    rc = _main()
    if rc == 1 and os.environ.get("VF_BACKEND") != "real":
        pid = sys.argv[1]
        mod, _ = load_module(pid)
        if getattr(mod, "E2", False):
            # E2: the counterexample was found on the MemFS model -> it must also reproduce on the real file system (tmpfs)
            e = dict(os.environ)
            e["VF_BACKEND"] = "real"
            p = subprocess.run([sys.executable, "-m", "vflib.replay"] + sys.argv[1:], env=e, capture_output=True, text=True)
            print("--- replay on the real file system (RealFS back end) ---")
            print((p.stdout + p.stderr)[-1500:])
            if p.returncode != 1:
                print("replay: reproduces on MemFS but NOT on the real file system -> model or harness error, not a violation")
                return 5
    return rc


def _main():
    pid, call = sys.argv[1], sys.argv[2]
    mod, _ = load_module(pid)
    ns = dict(vars(mod))
    try:
        eval(call, ns)
    except hutil._ReplayDiscard as e:
        print("replay: input violates an assumption of the harness:", e)
        return 4
    except AssertionError:
        traceback.print_exc()
        tb = traceback.extract_tb(sys.exc_info()[2])
        # an AssertionError raised by a *leading* assert is an unmet assumption, not a violation
        fn = call.split("(")[0]
        f = getattr(mod, fn, None)
        if f is not None and hasattr(mod, "PRECONDITION_LINES"):
            pass
        print("replay: assertion reproduced")
        return 1
    except Exception:
        traceback.print_exc()
        print("replay: exception reproduced")
        return 1
    print("replay: no violation on the real code")
    return 0


if __name__ == "__main__":
    sys.exit(main())
